package main

import (
	jd "github.com/josephburnett/jd/v2"

	"jdv/codec"
	"jdv/drive"
)

func init() {
	drivers["mg"] = driveMG
	drivers["mp"] = driveMP
}

// mg: RFC 7386 rendering of merge-mode diffs (C11).
// Events: MgBegin(a,b,opts) Diff RenderMerge(st, p) ReadBack(st,diff) ApplyBack(res) End
func driveMG(p *Plan, shard int, w *Writer, t *codec.Table) {
	v := drive.NewV2(t)
	forPairs(p, shard, func(id int, it *Item, ea, eb *Entry) {
		a, b, o := ea.D, eb.D, it.Opts
		d, r := v.Diff(a, b, o, false)
		if r.St != "ok" {
			return
		}
		w.Sess[shard]++
		w.Emit(shard, Rec{"sess": id, "op": "MgBegin", "a": a, "b": b, "opts": o})
		w.Emit(shard, Rec{"sess": id, "op": "Diff", "st": r.St, "diff": hunksOrEmpty(r.Diff)})
		var text string
		rr := drive.Guard(func() drive.Res {
			s, err := d.RenderMerge()
			if err != nil {
				return drive.Res{St: "err", Msg: err.Error()}
			}
			text = s
			return drive.Res{St: "ok"}
		})
		pn, ok := t.ParseStrict(text)
		if !ok {
			pn = codec.InvalidNode
		}
		w.Emit(shard, Rec{"sess": id, "op": "RenderMerge", "st": rr.St, "p": pn, "raw": text, "msg": rr.Msg})
		if rr.St == "ok" {
			var back jd.Diff
			rb := drive.Guard(func() drive.Res {
				x, err := drive.ReadMergeAny(text)
				if err != nil {
					return drive.Res{St: "err", Msg: err.Error()}
				}
				back = x
				return drive.Res{St: "ok"}
			})
			w.Emit(shard, Rec{"sess": id, "op": "ReadBack", "st": rb.St, "diff": hunksOrEmpty(v.ProjectDiff(back))})
			if rb.St == "ok" {
				_, ra := v.Patch(a, back, false)
				w.Emit(shard, Rec{"sess": id, "op": "ApplyBack", "res": ra})
			}
		}
		w.Emit(shard, Rec{"sess": id, "op": "End"})
	})
}

// mp: reading and applying arbitrary merge patch documents (C12).
// Events: MpBegin(p) Read(st,diff) Apply(t,res)* End   -- the family is used both for patches and targets
func driveMP(p *Plan, shard int, w *Writer, t *codec.Table) {
	v := drive.NewV2(t)
	id := 0
	for _, it := range p.Items {
		fam := loadFamily(p.Universe, it.Family)
		for pi := range fam {
			id++
			if id%p.Shards != shard {
				continue
			}
			pd := fam[pi].D
			text := t.Spell(pd, false) // the patch document in one of its spellings
			w.Sess[shard]++
			w.Emit(shard, Rec{"sess": id, "op": "MpBegin", "p": pd, "raw": text})
			var d jd.Diff
			rr := drive.Guard(func() drive.Res {
				x, err := drive.ReadMergeAny(text)
				if err != nil {
					return drive.Res{St: "err", Msg: err.Error()}
				}
				d = x
				return drive.Res{St: "ok"}
			})
			w.Emit(shard, Rec{"sess": id, "op": "Read", "st": rr.St, "diff": hunksOrEmpty(v.ProjectDiff(d)), "msg": rr.Msg})
			if rr.St == "ok" {
				for ti := range fam {
					if !keep(p.Seed, it.Frac, "mp", pi, ti) {
						continue
					}
					x, err := drive.ReadMergeAny(text)
					if err != nil {
						break
					}
					_, ra := v.Patch(fam[ti].D, x, false)
					w.Emit(shard, Rec{"sess": id, "op": "Apply", "t": fam[ti].D, "res": ra})
				}
			}
			w.Emit(shard, Rec{"sess": id, "op": "End"})
		}
	}
}
