package main

import (
	"bytes"
	"context"
	"encoding/json"
	"fmt"
	"os"
	"os/exec"
	"path/filepath"
	"strings"
	"syscall"
	"time"

	jd1 "github.com/josephburnett/jd/lib"
	jd "github.com/josephburnett/jd/v2"
	yaml "gopkg.in/yaml.v2"

	"jdv/codec"
	"jdv/drive"
)

func init() {
	drivers["proc"] = driveProc
	drivers["crcli"] = driveCrashCLI
}

// crcli: structurally valid diffs with arbitrary paths, and arbitrary line sequences, applied through the three
// binaries with -p (C13: exit status 2 and a one-line message, never a stack trace).
// Events: CliPatch(bin, raw, c, proc)
func driveCrashCLI(p *Plan, shard int, w *Writer, t *codec.Table) {
	v := drive.NewV2(t)
	wild := loadHunks(p.Universe, "hunks_wild")
	kinds := loadNdjson[codec.Line](p.Universe, "linekinds")
	targets := crashTargets()
	n := 240
	if f, ok := p.Extra["n"].(float64); ok {
		n = int(f)
	}
	tmp, err := os.MkdirTemp(p.Out, "crcli")
	if err != nil {
		fatal("%v", err)
	}
	defer os.RemoveAll(tmp)
	for c := 0; c < n; c++ {
		sess := c + 1
		if sess%p.Shards != shard {
			continue
		}
		var text string
		want := ""
		if c%3 != 2 {
			h := wild[pick(p.Seed, len(wild), "cw", c)]
			if len(h.Path) > 0 {
				// a target of the kind the first path element addresses, so that the patcher gets past its type check
				want = map[string]string{"idx": "A", "set": "A", "mset": "A", "setkeys": "A", "msetkeys": "A", "key": "O"}[h.Path[0].K]
			}
			r := drive.Guard(func() drive.Res { text = v.InjectDiff([]codec.Hunk{h}).Render(); return drive.Res{St: "ok"} })
			if r.St != "ok" {
				continue
			}
		} else {
			k := 2 + pick(p.Seed, 4, "cl", c)
			parts := make([]string, k)
			for i := range parts {
				parts[i] = lineText(t, kinds[pick(p.Seed, len(kinds), "ck", c, i)])
			}
			text = strings.Join(parts, "\n") + "\n"
		}
		tgt := targets[pick(p.Seed, len(targets), "ct", c)]
		if want != "" && c%4 != 3 {
			var fit []codec.Node
			for _, x := range targets {
				if x.K == want {
					fit = append(fit, x)
				}
			}
			tgt = fit[pick(p.Seed, len(fit), "cf", c)]
		}
		dir := filepath.Join(tmp, fmt.Sprint(sess))
		os.MkdirAll(dir, 0755)
		fd, ft := filepath.Join(dir, "d.jd"), filepath.Join(dir, "t.json")
		os.WriteFile(fd, []byte(text), 0644)
		os.WriteFile(ft, []byte(t.Text(tgt)), 0644)
		// the v1 format has no context lines: the v1 binary gets the same hunk without them
		var v1lines []string
		for _, ln := range strings.Split(text, "\n") {
			if ln == "" || (ln[0] != ' ' && ln[0] != '[' && ln[0] != ']' && ln[0] != '^') {
				v1lines = append(v1lines, ln)
			}
		}
		fd1 := filepath.Join(dir, "d1.jd")
		os.WriteFile(fd1, []byte(strings.Join(v1lines, "\n")), 0644)
		w.Sess[shard]++
		for _, b := range []string{"v2", "top", "topv1"} {
			argv := []string{"-p", fd, ft}
			bin := p.Bins["v2"]
			if b != "v2" {
				bin = p.Bins["top"]
			}
			if b == "topv1" {
				argv = []string{"-v2=false", "-p", fd1, ft}
			}
			po := runProc(bin, argv, nil, dir)
			w.Emit(shard, Rec{"sess": sess, "op": "CliPatch", "bin": b, "raw": text, "c": tgt, "proc": po})
		}
		w.Emit(shard, Rec{"sess": sess, "op": "End"})
		os.RemoveAll(dir)
	}
}

// Inv mirrors the invocation record of Cli.tla.
type Inv struct {
	Bin       string `json:"bin"`
	Version   bool   `json:"version"`
	Set       bool   `json:"set"`
	Mset      bool   `json:"mset"`
	Setkeys   string `json:"setkeys"`
	Precision int    `json:"precision"`
	F         string `json:"f"`
	O         bool   `json:"o"`
	Obad      bool   `json:"obad"` // -o names a file in a directory that does not exist
	Oin       string `json:"oin"`  // -o names one of the input files ("in1", "in2"): in place
	Fifo      bool   `json:"fifo"` // the second file argument is a named pipe
	P         bool   `json:"p"`
	T         string `json:"t"`
	Gdd       bool   `json:"gdd"`
	Yaml      bool   `json:"yaml"`
	Color     bool   `json:"color"`
	Nargs     int    `json:"nargs"`
	Stdin     bool   `json:"stdin"`
	In1       string `json:"in1"`
	In2       string `json:"in2"`
	Pair      int    `json:"pair"`
}

type cliPair struct {
	A codec.Node `json:"a"`
	B codec.Node `json:"b"`
}

type procOut struct {
	Exit        int    `json:"exit"`
	Stdout      string `json:"stdout"`
	StderrLines int    `json:"stderr_lines"`
	Trace       bool   `json:"stack_trace"`
	Timeout     bool   `json:"timeout"`
}

func runProc(bin string, argv []string, stdin []byte, dir string) procOut {
	ctx, cancel := context.WithTimeout(context.Background(), 120*time.Second)
	defer cancel()
	cmd := exec.CommandContext(ctx, bin, argv...)
	cmd.Dir = dir
	cmd.Stdin = bytes.NewReader(stdin)
	var so, se bytes.Buffer
	cmd.Stdout, cmd.Stderr = &so, &se
	err := cmd.Run()
	out := procOut{Stdout: so.String()}
	if ctx.Err() != nil {
		out.Timeout = true
		out.Exit = -1
		return out
	}
	if err != nil {
		if ee, ok := err.(*exec.ExitError); ok {
			out.Exit = ee.ExitCode()
		} else {
			out.Exit = -2
		}
	}
	es := strings.TrimRight(se.String(), "\n")
	if es != "" {
		out.StderrLines = len(strings.Split(es, "\n"))
	}
	out.Trace = strings.Contains(es, "goroutine ") || strings.Contains(es, "panic:")
	return out
}

// libAnswer is what the library renders for the options the flags stand for.
type libAnswer struct {
	Out  string `json:"out"`
	Err  bool   `json:"err"`
	Diff bool   `json:"diff"` // the library reports a difference: the diff has at least one element
	Eq   bool   `json:"eq"`   // Equals(a, b) under the options
	Msg  string `json:"msg"`
}

func (i Inv) opts() codec.Opts {
	o := codec.Opts{Set: i.Set, Mset: i.Mset, Merge: i.F == "merge", Eps: i.Precision}
	if i.Setkeys == "ok" {
		o.Keys = []string{"id"}
	}
	return o
}

func libV2(v *drive.V2, i Inv, mode, in1, in2 string) (ans libAnswer) {
	defer func() {
		if r := recover(); r != nil {
			ans = libAnswer{Err: true, Msg: fmt.Sprint("panic: ", r)}
		}
	}()
	fail := func(err error) libAnswer { return libAnswer{Err: true, Msg: err.Error()} }
	read := func(s string) (jd.JsonNode, error) {
		if i.Yaml {
			return jd.ReadYamlString(s)
		}
		return jd.ReadJsonString(s)
	}
	opts := append(v.Options(codec.Opts{Set: i.Set, Mset: i.Mset, Keys: i.opts().Keys, Merge: i.F == "merge"}), jd.Precision(float64(i.Precision)/8))
	switch mode {
	case "diff", "gdd":
		a, err := read(in1)
		if err != nil {
			return fail(err)
		}
		b, err := read(in2)
		if err != nil {
			return fail(err)
		}
		d := a.Diff(b, opts...)
		ans.Eq = a.Equals(b, opts...)
		switch i.F {
		case "", "jd":
			if i.Color {
				ans.Out = d.Render(jd.COLOR)
			} else {
				ans.Out = d.Render()
			}
			ans.Diff = len(d) > 0
		case "patch":
			s, err := d.RenderPatch()
			if err != nil {
				return fail(err)
			}
			ans.Out, ans.Diff = s, len(d) > 0
		case "merge":
			s, err := d.RenderMerge()
			if err != nil {
				return fail(err)
			}
			ans.Out, ans.Diff = s, len(d) > 0
		}
	case "patch":
		var d jd.Diff
		var err error
		switch i.F {
		case "", "jd":
			d, err = jd.ReadDiffString(in1)
		case "patch":
			d, err = jd.ReadPatchString(in1)
		case "merge":
			d, err = jd.ReadMergeString(in1)
		}
		if err != nil {
			return fail(err)
		}
		a, err := read(in2)
		if err != nil {
			return fail(err)
		}
		b, err := a.Patch(d)
		if err != nil {
			return fail(err)
		}
		if i.Yaml {
			ans.Out = b.Yaml(opts...)
		} else {
			ans.Out = b.Json(opts...)
		}
	case "trans":
		switch i.T {
		case "jd2patch":
			d, err := jd.ReadDiffString(in1)
			if err != nil {
				return fail(err)
			}
			s, err := d.RenderPatch()
			if err != nil {
				return fail(err)
			}
			ans.Out = s
		case "patch2jd":
			d, err := jd.ReadPatchString(in1)
			if err != nil {
				return fail(err)
			}
			ans.Out = d.Render()
		case "jd2merge":
			d, err := jd.ReadDiffString(in1)
			if err != nil {
				return fail(err)
			}
			s, err := d.RenderMerge()
			if err != nil {
				return fail(err)
			}
			ans.Out = s
		case "merge2jd":
			d, err := jd.ReadMergeString(in1)
			if err != nil {
				return fail(err)
			}
			ans.Out = d.Render()
		case "json2yaml":
			n, err := jd.ReadJsonString(in1)
			if err != nil {
				return fail(err)
			}
			ans.Out = n.Yaml()
		case "yaml2json":
			n, err := jd.ReadYamlString(in1)
			if err != nil {
				return fail(err)
			}
			ans.Out = n.Json()
		}
	}
	return ans
}

func libV1(v *drive.V1, i Inv, mode, in1, in2 string) (ans libAnswer) {
	defer func() {
		if r := recover(); r != nil {
			ans = libAnswer{Err: true, Msg: fmt.Sprint("panic: ", r)}
		}
	}()
	fail := func(err error) libAnswer { return libAnswer{Err: true, Msg: err.Error()} }
	read := func(s string) (jd1.JsonNode, error) {
		if i.Yaml {
			return jd1.ReadYamlString(s)
		}
		return jd1.ReadJsonString(s)
	}
	md := append(v.Metadata(codec.Opts{Set: i.Set, Mset: i.Mset, Keys: i.opts().Keys, Merge: i.F == "merge"}), jd1.SetPrecision(float64(i.Precision)/8))
	switch mode {
	case "diff":
		a, err := read(in1)
		if err != nil {
			return fail(err)
		}
		b, err := read(in2)
		if err != nil {
			return fail(err)
		}
		d := a.Diff(b, md...)
		ans.Eq = a.Equals(b, md...)
		switch i.F {
		case "", "jd":
			if i.Color {
				ans.Out = d.Render(jd1.COLOR)
			} else {
				ans.Out = d.Render()
			}
			ans.Diff = len(d) > 0
		case "patch":
			s, err := d.RenderPatch()
			if err != nil {
				return fail(err)
			}
			ans.Out, ans.Diff = s, len(d) > 0
		case "merge":
			s, err := d.RenderMerge()
			if err != nil {
				return fail(err)
			}
			ans.Out, ans.Diff = s, len(d) > 0
		}
	case "patch":
		var d jd1.Diff
		var err error
		switch i.F {
		case "", "jd":
			d, err = jd1.ReadDiffString(in1)
		case "patch":
			d, err = jd1.ReadPatchString(in1)
		case "merge":
			d, err = jd1.ReadMergeString(in1)
		}
		if err != nil {
			return fail(err)
		}
		a, err := read(in2)
		if err != nil {
			return fail(err)
		}
		b, err := a.Patch(d)
		if err != nil {
			return fail(err)
		}
		if i.Yaml {
			ans.Out = b.Yaml(md...)
		} else {
			ans.Out = b.Json(md...)
		}
	case "trans":
		switch i.T {
		case "jd2patch":
			d, err := jd1.ReadDiffString(in1)
			if err != nil {
				return fail(err)
			}
			s, err := d.RenderPatch()
			if err != nil {
				return fail(err)
			}
			ans.Out = s
		case "patch2jd":
			d, err := jd1.ReadPatchString(in1)
			if err != nil {
				return fail(err)
			}
			ans.Out = d.Render()
		case "jd2merge":
			d, err := jd1.ReadDiffString(in1)
			if err != nil {
				return fail(err)
			}
			s, err := d.RenderMerge()
			if err != nil {
				return fail(err)
			}
			ans.Out = s
		case "merge2jd":
			d, err := jd1.ReadMergeString(in1)
			if err != nil {
				return fail(err)
			}
			ans.Out = d.Render()
		case "json2yaml":
			n, err := jd1.ReadJsonString(in1)
			if err != nil {
				return fail(err)
			}
			ans.Out = n.Yaml()
		case "yaml2json":
			n, err := jd1.ReadYamlString(in1)
			if err != nil {
				return fail(err)
			}
			ans.Out = n.Json()
		}
	}
	return ans
}

func modeOf(i Inv) string {
	switch {
	case i.Gdd:
		return "gdd"
	case i.T != "":
		return "trans"
	case i.P:
		return "patch"
	}
	return "diff"
}

func (i Inv) flags(outFile string) []string {
	var f []string
	if i.Bin == "topv1" {
		f = append(f, "-v2=false")
	}
	if i.Version {
		f = append(f, "-version")
	}
	if i.Set {
		f = append(f, "-set")
	}
	if i.Mset {
		f = append(f, "-mset")
	}
	switch i.Setkeys {
	case "ok":
		f = append(f, "-setkeys", " id ")
	case "bad":
		f = append(f, "-setkeys", "id,,v")
	}
	if i.Precision != 0 {
		f = append(f, "-precision", fmt.Sprint(float64(i.Precision)/8))
	}
	if i.F != "" {
		f = append(f, "-f", i.F)
	}
	if i.O {
		f = append(f, "-o", outFile)
	}
	if i.P {
		f = append(f, "-p")
	}
	if i.T != "" {
		f = append(f, "-t", i.T)
	}
	if i.Gdd {
		f = append(f, "-git-diff-driver")
	}
	if i.Yaml {
		f = append(f, "-yaml")
	}
	if i.Color {
		f = append(f, "-color")
	}
	return f
}

const invalidText = `{"unterminated`

// parseDoc reads a document printed by jd -p, independently of jd (encoding/json, yaml.v2).
func parseDoc(t *codec.Table, s string, isYaml bool) (codec.Node, bool) {
	if strings.Trim(s, " \t\r\n") == "" {
		return codec.Void(), true
	}
	if !isYaml {
		n, err := t.FromText(s)
		return n, err == nil
	}
	var x any
	if err := yaml.Unmarshal([]byte(s), &x); err != nil {
		return codec.Node{}, false
	}
	return t.FromRaw(x), true
}

// proc: the jd binaries run on the invocation matrix of Cli.tla (C14, C05, C13).
func driveProc(p *Plan, shard int, w *Writer, t *codec.Table) {
	v2d, v1d := drive.NewV2(t), drive.NewV1(t)
	invs := loadNdjson[Inv](p.Universe, "invocations")
	pairs := loadNdjson[cliPair](p.Universe, "clipairs")
	frac := 1.0
	if f, ok := p.Extra["frac"].(float64); ok {
		frac = f
	}
	tmp, err := os.MkdirTemp(p.Out, "proc")
	if err != nil {
		fatal("%v", err)
	}
	defer os.RemoveAll(tmp)
	for ii, inv := range invs {
		sess := ii + 1
		if sess%p.Shards != shard {
			continue
		}
		isErrCase := inv.Obad || inv.Fifo || inv.Oin != "" || inv.Pair == 9 || inv.In2 == "mismatch" || inv.In1 != "ok" || inv.In2 != "ok" || inv.Version || inv.Gdd || inv.Nargs == 0 || inv.Nargs >= 3 || inv.F == "bogus" || inv.T == "bogus" || inv.Setkeys == "bad" || (inv.P && inv.T != "")
		if !isErrCase && !keep(p.Seed, frac, "inv", ii) {
			continue
		}
		if inv.Pair < 1 || inv.Pair > len(pairs) {
			continue
		}
		pr := pairs[inv.Pair-1]
		mode := modeOf(inv)
		dir := filepath.Join(tmp, fmt.Sprint(sess))
		os.MkdirAll(dir, 0755)
		text := func(n codec.Node) string {
			if inv.Yaml && !n.IsVoid() && sess%2 == 0 {
				// half of the YAML runs get block-style YAML produced by an independent encoder
				r, _ := t.Raw(n)
				if b, err := yaml.Marshal(r); err == nil {
					return string(b)
				}
			}
			return spell(t.Text(n), sess)
		}
		// the two logical inputs
		var in1, in2 string
		libFor := func(i2 Inv, m string, x, y string) libAnswer {
			if inv.Bin == "topv1" && m != "gdd" {
				return libV1(v1d, i2, m, x, y)
			}
			return libV2(v2d, i2, m, x, y)
		}
		switch mode {
		case "diff", "gdd":
			in1, in2 = text(pr.A), text(pr.B)
		case "patch":
			di := inv
			di.P, di.Color, di.O = false, false, false
			in1 = libFor(di, "diff", text(pr.A), text(pr.B)).Out
			in2 = text(pr.A)
		case "trans":
			di := inv
			di.T, di.Color, di.O, di.Yaml = "", false, false, false
			switch inv.T {
			case "jd2patch":
				in1 = libFor(di, "diff", t.Text(pr.A), t.Text(pr.B)).Out
			case "patch2jd":
				di.F = "patch"
				in1 = libFor(di, "diff", t.Text(pr.A), t.Text(pr.B)).Out
			case "jd2merge":
				di.F = "merge"
				x := libFor(di, "diff", t.Text(pr.A), t.Text(pr.B))
				// the native rendering of the merge-mode diff
				dj := di
				dj.F = "merge"
				_ = x
				if inv.Bin == "topv1" {
					a, _ := jd1.ReadJsonString(t.Text(pr.A))
					b, _ := jd1.ReadJsonString(t.Text(pr.B))
					in1 = a.Diff(b, jd1.MERGE).Render()
				} else {
					a, _ := jd.ReadJsonString(t.Text(pr.A))
					b, _ := jd.ReadJsonString(t.Text(pr.B))
					in1 = a.Diff(b, jd.MERGE).Render()
				}
			case "merge2jd":
				di.F = "merge"
				in1 = libFor(di, "diff", t.Text(pr.A), t.Text(pr.B)).Out
			case "json2yaml":
				in1 = t.Text(pr.B)
			case "yaml2json":
				r, _ := t.Raw(pr.B)
				if pr.B.IsVoid() {
					in1 = ""
				} else {
					b, _ := yaml.Marshal(r)
					in1 = string(b)
				}
			default:
				in1 = t.Text(pr.B)
			}
		}
		if inv.In1 == "invalid" {
			in1 = invalidText
		}
		if inv.In2 == "invalid" {
			in2 = invalidText
		}
		if inv.In2 == "mismatch" {
			in2 = text(pr.B) // the diff was made for pr.A
		}
		f1, f2, outFile := filepath.Join(dir, "in1"), filepath.Join(dir, "in2"), filepath.Join(dir, "out")
		if inv.Obad {
			outFile = filepath.Join(dir, "no-such-directory", "out")
		}
		if inv.Oin == "in1" {
			outFile = f1
		} else if inv.Oin == "in2" {
			outFile = f2
		}
		if inv.In1 != "missing" {
			os.WriteFile(f1, []byte(in1), 0644)
		}
		if inv.In2 != "missing" {
			os.WriteFile(f2, []byte(in2), 0644)
		}
		run := func(useStdin bool) (procOut, string, bool) {
			if inv.Oin != "" {
				// in place: the -o target is an input file; put the inputs back before every run
				os.WriteFile(f1, []byte(in1), 0644)
				os.WriteFile(f2, []byte(in2), 0644)
			} else {
				os.Remove(outFile)
			}
			if inv.O && sess%2 == 1 && inv.Oin == "" {
				// the output file already exists and is longer than anything jd will write:
				// "-o writes those same bytes to the file" must hold for a reused file too
				os.WriteFile(outFile, []byte(strings.Repeat("stale output of an earlier run\n", 200)), 0644)
			}
			argv := inv.flags(outFile)
			var stdin []byte
			switch {
			case inv.Gdd:
				if inv.Nargs == 7 {
					argv = append(argv, "path", f1, "hex", "mode", f2, "hex", "mode")
				} else {
					argv = append(argv, f1, f2)
				}
			case mode == "trans":
				switch {
				case inv.Nargs >= 2:
					argv = append(argv, f1, f1)
				case useStdin:
					stdin = []byte(in1)
				default:
					argv = append(argv, f1)
				}
			default:
				switch {
				case inv.Nargs == 0:
				case inv.Nargs >= 3:
					argv = append(argv, f1, f2, f1)
				case useStdin:
					argv = append(argv, f1)
					stdin = []byte(in2)
				default:
					argv = append(argv, f1, f2)
				}
			}
			bin := p.Bins["v2"]
			if inv.Bin != "v2" {
				bin = p.Bins["top"]
			}
			var fifoDone chan struct{}
			if inv.Fifo && !useStdin {
				// the second file argument is a named pipe: a file like any other to a program that reads it to the end
				os.Remove(f2)
				if syscall.Mkfifo(f2, 0600) == nil {
					fifoDone = make(chan struct{})
					go func() {
						defer close(fifoDone)
						if fw, err := os.OpenFile(f2, os.O_WRONLY, 0); err == nil { // blocks until jd opens the pipe
							fw.WriteString(in2)
							fw.Close()
						}
					}()
				}
			}
			po := runProc(bin, argv, stdin, dir)
			if fifoDone != nil {
				// release the writer if jd never opened the pipe, then put the regular file back
				if fr, err := os.OpenFile(f2, os.O_RDONLY|syscall.O_NONBLOCK, 0); err == nil {
					select {
					case <-fifoDone:
					case <-time.After(5 * time.Second):
					}
					fr.Close()
				}
				os.Remove(f2)
				os.WriteFile(f2, []byte(in2), 0644)
			}
			fb, err := os.ReadFile(outFile)
			if inv.O && sess%2 == 1 && strings.HasPrefix(string(fb), "stale output of an earlier run\nstale") {
				return po, "", false // untouched: jd did not write the file
			}
			return po, string(fb), err == nil
		}
		w.Sess[shard]++
		po, file, written := run(inv.Stdin)
		lib := libAnswer{}
		needLib := !inv.Version && inv.In1 != "missing" && inv.In2 != "missing"
		if needLib {
			lib = libFor(inv, mode, in1, in2)
		}
		rec := Rec{"sess": sess, "op": "Proc", "inv": inv, "mode": mode, "proc": po, "file": file, "file_written": written, "lib": lib, "twin": false}
		// round trip: feed the output to jd -p with the same reading flags
		if mode == "diff" && inv.Oin == "" && !inv.Version && lib.Err == false && po.Exit >= 0 && po.Exit <= 1 && inv.In1 == "ok" && inv.In2 == "ok" && !inv.Color && inv.Nargs <= 2 && inv.Nargs >= 1 && inv.F != "bogus" {
			produced := po.Stdout
			if inv.O {
				produced = file
			}
			pf := filepath.Join(dir, "produced")
			os.WriteFile(pf, []byte(produced), 0644)
			pi := inv
			pi.P, pi.O, pi.Stdin, pi.Nargs = true, false, false, 2
			argv := append(pi.flags(""), pf, f1)
			bin := p.Bins["v2"]
			if inv.Bin != "v2" {
				bin = p.Bins["top"]
			}
			rp := runProc(bin, argv, nil, dir)
			doc, ok := parseDoc(t, rp.Stdout, inv.Yaml)
			if !ok {
				doc = codec.InvalidNode
			}
			rec["rt"] = Rec{"proc": rp, "doc": doc, "a": pr.A, "b": pr.B, "opts": inv.opts()}
		}
		w.Emit(shard, rec)
		// the stdin twin of a file run (and vice versa)
		if !inv.Gdd && !inv.Version && ((mode == "trans" && inv.Nargs <= 1) || (mode != "trans" && inv.Nargs >= 1 && inv.Nargs <= 2)) && inv.In1 == "ok" && inv.In2 == "ok" {
			po2, file2, written2 := run(!inv.Stdin)
			w.Emit(shard, Rec{"sess": sess, "op": "Proc", "inv": inv, "mode": mode, "proc": po2, "file": file2, "file_written": written2, "lib": lib, "twin": true})
		}
		w.Emit(shard, Rec{"sess": sess, "op": "End"})
		os.RemoveAll(dir)
	}
}

// spell returns another spelling of the same JSON document (the carrier text of a document is not part of the
// abstract invocation): compact, indented, indented with CRLF line ends, with a final newline, or surrounded by blanks.
func spell(text string, sess int) string {
	if text == "" || len(text) > 4096 {
		return text
	}
	switch (sess / 2) % 5 {
	case 1, 2:
		var b bytes.Buffer
		if json.Indent(&b, []byte(text), "", "  ") != nil {
			return text
		}
		out := b.String() + "\n"
		if (sess/2)%5 == 2 {
			out = strings.ReplaceAll(out, "\n", "\r\n")
		}
		return out
	case 3:
		return text + "\n"
	case 4:
		return "\n  " + text + " \t\n\n"
	}
	return text
}
