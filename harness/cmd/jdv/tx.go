package main

import (
	"bufio"
	"encoding/json"
	"os"
	"path/filepath"
	"regexp"
	"sort"

	jd "github.com/josephburnett/jd/v2"

	"jdv/codec"
	"jdv/drive"
)

func init() {
	drivers["tx"] = driveTX
}

var hunkCache = map[string][]codec.Hunk{}

func loadHunks(dir, name string) []codec.Hunk {
	universeMu.Lock()
	defer universeMu.Unlock()
	if h, ok := hunkCache[name]; ok {
		return h
	}
	f, err := os.Open(filepath.Join(dir, name+".ndjson"))
	if err != nil {
		fatal("hunks: %v", err)
	}
	defer f.Close()
	var out []codec.Hunk
	sc := bufio.NewScanner(f)
	sc.Buffer(make([]byte, 1<<20), 1<<26)
	for sc.Scan() {
		if len(sc.Bytes()) == 0 {
			continue
		}
		var h codec.Hunk
		if err := json.Unmarshal(sc.Bytes(), &h); err != nil {
			fatal("hunks %s: %v", name, err)
		}
		out = append(out, h.Norm())
	}
	hunkCache[name] = out
	return out
}

var ansi = regexp.MustCompile("\x1b\\[[0-9;]*m")

// txSession records the text round trip of one diff value.
func txSession(v *drive.V2, w *Writer, shard, id int, d jd.Diff, begin Rec, targets []codec.Node) {
	w.Sess[shard]++
	begin["sess"], begin["op"] = id, "TxBegin"
	begin["d"] = hunksOrEmpty(v.ProjectDiff(d))
	w.Emit(shard, begin)
	var text string
	r := drive.Guard(func() drive.Res { text = d.Render(); return drive.Res{St: "ok"} })
	w.Emit(shard, Rec{"sess": id, "op": "Render", "st": r.St, "lines": v.T.Lex(text), "raw": text})
	if r.St != "ok" {
		w.Emit(shard, Rec{"sess": id, "op": "End"})
		return
	}
	var d2 jd.Diff
	r = drive.Guard(func() drive.Res {
		x, err := drive.ReadDiffAny(text)
		if err != nil {
			return drive.Res{St: "err", Msg: err.Error()}
		}
		d2 = x
		return drive.Res{St: "ok"}
	})
	w.Emit(shard, Rec{"sess": id, "op": "Read", "st": r.St, "diff": hunksOrEmpty(v.ProjectDiff(d2)), "msg": r.Msg})
	if r.St == "ok" {
		var text2 string
		r2 := drive.Guard(func() drive.Res { text2 = d2.Render(); return drive.Res{St: "ok"} })
		w.Emit(shard, Rec{"sess": id, "op": "Render2", "st": r2.St, "same": text2 == text, "lines": v.T.Lex(text2)})
	}
	var ctext string
	r = drive.Guard(func() drive.Res { ctext = d.Render(jd.COLOR); return drive.Res{St: "ok"} })
	w.Emit(shard, Rec{"sess": id, "op": "Color", "st": r.St, "same": ansi.ReplaceAllString(ctext, "") == text, "colored": ctext != text})
	if d2 != nil {
		for _, c := range targets {
			_, r1 := v.Patch(c, d, false)
			// d2 is re-read for every target: Patch may keep references into the diff it is given
			x, err := drive.ReadDiffAny(text)
			if err != nil {
				continue
			}
			_, r2 := v.Patch(c, x, false)
			w.Emit(shard, Rec{"sess": id, "op": "Effect", "c": c, "r1": r1, "r2": r2})
		}
	}
	w.Emit(shard, Rec{"sess": id, "op": "End"})
}

// tx: text round trip of (i) real diffs and (ii) diffs built from DiffElement fields.
func driveTX(p *Plan, shard int, w *Writer, t *codec.Table) {
	v := drive.NewV2(t)
	last := 0
	// (i) real diffs
	forPairs(p, shard, func(id int, it *Item, ea, eb *Entry) {
		if it.Mode == "built" {
			return
		}
		a, b, o := ea.D, eb.D, it.Opts
		d, r := v.Diff(a, b, o, false)
		if r.St != "ok" {
			return
		}
		targets := []codec.Node{a}
		if len(ea.P) > 0 {
			targets = append(targets, ea.P[pick(p.Seed, len(ea.P), "txt", id)])
		}
		txSession(v, w, shard, id, d, Rec{"src": "diff", "a": a, "b": b, "opts": o}, targets)
	})
	// (ii) built diffs: singles, then seeded pairs and triples (strict hunks first)
	for _, it := range p.Items {
		if it.Mode != "built" {
			continue
		}
		hs := loadHunks(p.Universe, it.Family)
		fam := loadFamily(p.Universe, "deep")
		id := 10000000 + last
		chunkI, chunkN := chunkOf(p)
		mk := func(seq []codec.Hunk) {
			id++
			if id%p.Shards != shard || (chunkN > 1 && (id/p.Shards)%chunkN != chunkI) {
				return
			}
			sort.SliceStable(seq, func(i, j int) bool { return !seq[i].Merge && seq[j].Merge })
			var d jd.Diff
			r := drive.Guard(func() drive.Res { d = v.InjectDiff(seq); return drive.Res{St: "ok"} })
			if r.St != "ok" {
				return
			}
			targets := []codec.Node{fam[pick(p.Seed, len(fam), "bt", id)].D, codec.Arr(codec.Num(8), codec.Num(16))}
			txSession(v, w, shard, id, d, Rec{"src": "built"}, targets)
		}
		for i := range hs {
			if keep(p.Seed, it.Frac, "single", i) {
				mk([]codec.Hunk{hs[i]})
			}
		}
		n2, n3 := it.Max, it.Max/2
		for c := 0; c < n2; c++ {
			mk([]codec.Hunk{hs[pick(p.Seed, len(hs), "p1", c)], hs[pick(p.Seed, len(hs), "p2", c)]})
		}
		for c := 0; c < n3; c++ {
			mk([]codec.Hunk{hs[pick(p.Seed, len(hs), "t1", c)], hs[pick(p.Seed, len(hs), "t2", c)], hs[pick(p.Seed, len(hs), "t3", c)]})
		}
		last += 5000000
	}
}
