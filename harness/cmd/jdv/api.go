package main

import (
	"encoding/json"
	"fmt"
	"os"
	"os/exec"
	"sync"

	jd "github.com/josephburnett/jd/v2"

	"jdv/codec"
	"jdv/drive"
)

func init() {
	drivers["api"] = driveAPI
}

type histLine struct {
	H []string `json:"h"`
}

type apiSeed struct {
	A, B codec.Node
	O    codec.Opts
}

func apiSeeds(p *Plan) []apiSeed {
	var out []apiSeed
	for _, it := range p.Items {
		fam := loadFamily(p.Universe, it.Family)
		n := it.Max
		for c := 0; c < n; c++ {
			i, j := pick(p.Seed, len(fam), "sa", it.Family, it.Opts.Tag(), c), pick(p.Seed, len(fam), "sb", it.Family, it.Opts.Tag(), c)
			if it.NF && (!fam[i].NF || !fam[j].NF) {
				continue
			}
			out = append(out, apiSeed{fam[i].D, fam[j].D, it.Opts})
		}
	}
	return out
}

type live struct {
	v    *drive.V2
	a, b jd.JsonNode
	d    jd.Diff
	opts []jd.Option
}

func (l *live) obs() Rec {
	return Rec{"a": l.v.Project(l.a), "b": l.v.Project(l.b), "d": hunksOrEmpty(l.v.ProjectDiff(l.d))}
}

func (l *live) call(name string) (string, string) {
	var out string
	r := drive.Guard(func() drive.Res {
		switch name {
		case "Render":
			out = l.d.Render()
		case "RenderColor":
			out = l.d.Render(jd.COLOR)
		case "RenderPatch":
			s, err := l.d.RenderPatch()
			if err != nil {
				s = "ERR:" + err.Error()
			}
			out = s
		case "RenderMerge":
			s, err := l.d.RenderMerge()
			if err != nil {
				s = "ERR:" + err.Error()
			}
			out = s
		case "JsonA":
			out = l.a.Json()
		case "YamlA":
			out = l.a.Yaml()
		case "JsonB":
			out = l.b.Json()
		case "JsonASet":
			out = l.a.Json(jd.SET)
		case "YamlBMset":
			out = l.b.Yaml(jd.MULTISET)
		case "EqualsAB":
			out = fmt.Sprint(l.a.Equals(l.b, l.opts...))
		case "DiffAgain":
			out = l.a.Diff(l.b, l.opts...).Render()
		case "ReadMergeRender":
			s, err := l.d.RenderMerge()
			if err != nil {
				out = "ERR:" + err.Error()
				break
			}
			x, err := jd.ReadMergeString(s)
			if err != nil {
				out = "ERR:" + err.Error()
				break
			}
			out = x.Render()
		default:
			out = "?"
		}
		return drive.Res{St: "ok"}
	})
	return out, r.St
}

func newLive(v *drive.V2, s apiSeed) (*live, bool) {
	l := &live{v: v, opts: v.Options(s.O)}
	r := drive.Guard(func() drive.Res {
		l.a, l.b = v.MustInject(s.A), v.MustInject(s.B)
		l.d = l.a.Diff(l.b, l.opts...)
		return drive.Res{St: "ok"}
	})
	return l, r.St == "ok"
}

var apiRefOnce sync.Once
var apiRefOut [][]string

var apiCalls = []string{"Render", "RenderColor", "RenderPatch", "RenderMerge", "JsonA", "YamlA", "JsonB", "EqualsAB", "DiffAgain", "ReadMergeRender", "JsonASet", "YamlBMset"}

// apiRef runs in a separate process: every call once on fresh values, for every seed.
func apiRef(p *Plan, t *codec.Table) {
	v := drive.NewV2(t)
	out := [][]string{}
	for _, s := range apiSeeds(p) {
		row := make([]string, len(apiCalls))
		for i, c := range apiCalls {
			if l, ok := newLive(v, s); ok {
				row[i], _ = l.call(c)
			}
		}
		out = append(out, row)
	}
	json.NewEncoder(os.Stdout).Encode(out)
}

// api: call histories generated from Api.tla replayed on shared live values (C15).
func driveAPI(p *Plan, shard int, w *Writer, t *codec.Table) {
	v := drive.NewV2(t)
	name, _ := p.Extra["histories"].(string)
	hists := loadNdjson[histLine](p.Universe, name)
	reps := 2
	seeds := apiSeeds(p)
	// reference outputs from a fresh process
	apiRefOnce.Do(func() {
		cmd := exec.Command(os.Args[0], "--apiref", os.Args[1])
		b, err := cmd.Output()
		if err != nil || json.Unmarshal(b, &apiRefOut) != nil {
			fatal("reference process failed: %v", err)
		}
	})
	ref := apiRefOut
	chunkI, chunkN := chunkOf(p)
	for si, s := range seeds {
		if si%p.Shards != shard {
			continue
		}
		for hi, h := range hists {
			if chunkN > 1 && hi%chunkN != chunkI {
				continue
			}
			for rep := 0; rep < reps; rep++ {
				sess := ((hi*reps+rep)*4096+si/p.Shards)*p.Shards + shard
				l, ok := newLive(v, s)
				if !ok {
					continue
				}
				w.Sess[shard]++
				w.Emit(shard, Rec{"sess": sess, "op": "ApiBegin", "seed": si, "a": s.A, "b": s.B, "opts": s.O, "hist": h.H, "obs": l.obs()})
				if hi == 0 && rep == 0 && si < len(ref) {
					for ci, c := range apiCalls {
						w.Emit(shard, Rec{"sess": sess, "op": "Ref", "name": c, "out": ref[si][ci]})
					}
				}
				for _, c := range h.H {
					out, st := l.call(c)
					w.Emit(shard, Rec{"sess": sess, "op": "Call", "name": c, "out": out, "st": st, "obs": l.obs()})
				}
				// the diff must still patch correctly after having been rendered
				patched, res := v.Patch(s.A, l.d, false)
				eq := false
				if res.St == "ok" && patched != nil {
					e := v.EqualsJ(patched, s.B, s.O, false)
					eq = e.St == "ok" && e.Bool != nil && *e.Bool
				}
				w.Emit(shard, Rec{"sess": sess, "op": "Final", "res": res, "eq": eq})
				w.Emit(shard, Rec{"sess": sess, "op": "End"})
			}
		}
	}
}
