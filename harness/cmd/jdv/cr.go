package main

import (
	"bufio"
	"encoding/json"
	"math/rand"
	"os"
	"path/filepath"
	"strings"

	jd "github.com/josephburnett/jd/v2"

	"jdv/codec"
	"jdv/drive"
)

func init() {
	drivers["cr"] = driveCR
}

func loadNdjson[T any](dir, name string) []T {
	f, err := os.Open(filepath.Join(dir, name+".ndjson"))
	if err != nil {
		fatal("%s: %v", name, err)
	}
	defer f.Close()
	var out []T
	sc := bufio.NewScanner(f)
	sc.Buffer(make([]byte, 1<<20), 1<<26)
	for sc.Scan() {
		if len(sc.Bytes()) == 0 {
			continue
		}
		var x T
		if err := json.Unmarshal(sc.Bytes(), &x); err != nil {
			fatal("%s: %v", name, err)
		}
		out = append(out, x)
	}
	return out
}

func obj(kv ...any) codec.Node {
	m := map[string]codec.Node{}
	for i := 0; i+1 < len(kv); i += 2 {
		m[kv[i].(string)] = kv[i+1].(codec.Node)
	}
	return codec.Node{K: "O", V: m}
}

// crashTargets: documents of every kind for "any successfully read diff applied to any document"
func crashTargets() []codec.Node {
	n := codec.Num
	return []codec.Node{
		codec.Void(), codec.Null(), n(8), codec.Str("s0"), codec.Arr(), codec.Arr(n(8)), codec.Arr(n(8), n(16), n(24)),
		obj(), obj("k0", n(8)), obj("k0", codec.Arr(n(8), n(16))), codec.Arr(codec.Arr(n(8)), codec.Arr(n(16))),
		codec.Arr(obj("id", n(8), "v", n(8))), obj("k0", obj("k1", n(8))), codec.Arr(obj("k0", n(8)), n(8)),
		// the 8-byte string whose bytes are the float64 of the number 1000001 stands for (they hash alike), where the
		// other targets have the number 1: hunks that mention that number meet its look-alike
		codec.Arr(codec.Str("sA")), codec.Arr(codec.Str("sA"), n(16), n(24)), obj("k0", codec.Arr(codec.Str("sA"), n(16))),
		codec.Arr(obj("id", codec.Str("sA"), "v", n(8))), codec.Arr(n(1000001), codec.Str("sA")), obj("k0", codec.Str("sA")),
	}
}

// aliasTwist replaces the number 1 by the number whose hash is that of the string "AAAAAAAA" in every value of a hunk.
func aliasTwist(h codec.Hunk) codec.Hunk {
	var tw func(n codec.Node) codec.Node
	tw = func(n codec.Node) codec.Node {
		switch n.K {
		case "n":
			if i, ok := n.V.(int); ok && i == 8 {
				return codec.Num(1000001)
			}
		case "A":
			l := n.V.([]codec.Node)
			out := make([]codec.Node, len(l))
			for i, e := range l {
				out[i] = tw(e)
			}
			return codec.Node{K: "A", V: out}
		case "O":
			m := n.V.(map[string]codec.Node)
			out := map[string]codec.Node{}
			for k, e := range m {
				out[k] = tw(e)
			}
			return codec.Node{K: "O", V: out}
		}
		return n
	}
	seq := func(l []codec.Node) []codec.Node {
		out := make([]codec.Node, len(l))
		for i, e := range l {
			out[i] = tw(e)
		}
		return out
	}
	h.Before, h.Remove, h.Add, h.After = seq(h.Before), seq(h.Remove), seq(h.Add), seq(h.After)
	return h
}

func lineText(t *codec.Table, ln codec.Line) string {
	switch ln.P.K {
	case "v":
		return ln.H
	case "I":
		return ln.H + ` {"unterminated`
	}
	return ln.H + " " + t.Text(ln.P)
}

func readDiffGuard(text string) (jd.Diff, drive.Res) {
	var d jd.Diff
	r := drive.Guard(func() drive.Res {
		x, err := jd.ReadDiffString(text)
		if err != nil {
			return drive.Res{St: "err", Msg: err.Error()}
		}
		d = x
		return drive.Res{St: "ok"}
	})
	return d, r
}

// cr: crash-freedom of the readers and of Patch on arbitrary input (C13).
func driveCR(p *Plan, shard int, w *Writer, t *codec.Table) {
	v := drive.NewV2(t)
	targets := crashTargets()
	quick, tiny := true, false
	if s, ok := p.Extra["tier"].(string); ok && s == "thorough" {
		quick = false
	} else if ok && s == "selftest" {
		tiny = true
	}
	scale := func(n int) int {
		if tiny {
			return n / 50
		}
		return n
	}
	id := 0
	chunkI, chunkN := chunkOf(p)
	own := func() bool {
		id++
		return id%p.Shards == shard && (chunkN <= 1 || (id/p.Shards)%chunkN == chunkI)
	}
	applyAll := func(sess int, mk func() (jd.Diff, bool), nt int) {
		for k := 0; k < nt; k++ {
			c := targets[(sess+k*5)%len(targets)]
			d, ok := mk()
			if !ok {
				return
			}
			_, r := v.Patch(c, d, false)
			w.Emit(shard, Rec{"sess": sess, "op": "Apply", "c": c, "res": r})
		}
	}

	// (1) arbitrary line sequences through ReadDiffString
	kinds := loadNdjson[codec.Line](p.Universe, "linekinds")
	lineSession := func(seq []codec.Line) {
		if !own() {
			return
		}
		parts := make([]string, len(seq))
		for i, ln := range seq {
			parts[i] = lineText(t, ln)
		}
		text := strings.Join(parts, "\n") + "\n"
		w.Sess[shard]++
		d, r := readDiffGuard(text)
		w.Emit(shard, Rec{"sess": id, "op": "RdLines", "lines": t.Lex(text), "raw": text, "st": r.St, "diff": hunksOrEmpty(v.ProjectDiff(d)), "msg": r.Msg})
		if r.St == "ok" && len(d) > 0 {
			applyAll(id, func() (jd.Diff, bool) { x, err := jd.ReadDiffString(text); return x, err == nil }, 3)
		}
		w.Emit(shard, Rec{"sess": id, "op": "End"})
	}
	for i := range kinds {
		lineSession([]codec.Line{kinds[i]})
		for j := range kinds {
			lineSession([]codec.Line{kinds[i], kinds[j]})
			for k := range kinds {
				if quick && !keep(p.Seed, map[bool]float64{false: 0.12, true: 0.002}[tiny], "l3", i, j, k) {
					continue
				}
				lineSession([]codec.Line{kinds[i], kinds[j], kinds[k]})
			}
		}
	}
	nlong := scale(6000)
	if !quick {
		nlong = 60000
	}
	for c := 0; c < nlong; c++ {
		n := 4 + pick(p.Seed, 4, "ln", c)
		seq := make([]codec.Line, n)
		for i := range seq {
			seq[i] = kinds[pick(p.Seed, len(kinds), "lk", c, i)]
		}
		lineSession(seq)
	}

	// (2) structurally valid hunks with arbitrary paths, built from fields and through text
	wild := loadHunks(p.Universe, "hunks_wild")
	fw := 0.08
	if !quick {
		fw = 1.0
	}
	if tiny {
		fw = 0.002
	}
	for hi := range wild {
		if !keep(p.Seed, fw, "wild", hi) {
			continue
		}
		if !own() {
			continue
		}
		h := wild[hi]
		if hi%5 == 0 {
			h = aliasTwist(h)
		}
		w.Sess[shard]++
		w.Emit(shard, Rec{"sess": id, "op": "Wild", "h": h})
		applyAll(id, func() (jd.Diff, bool) {
			var d jd.Diff
			r := drive.Guard(func() drive.Res { d = v.InjectDiff([]codec.Hunk{h}); return drive.Res{St: "ok"} })
			return d, r.St == "ok"
		}, 4)
		var text string
		rr := drive.Guard(func() drive.Res { text = v.InjectDiff([]codec.Hunk{h}).Render(); return drive.Res{St: "ok"} })
		w.Emit(shard, Rec{"sess": id, "op": "WildRender", "st": rr.St, "raw": text})
		if rr.St == "ok" {
			d, r := readDiffGuard(text)
			w.Emit(shard, Rec{"sess": id, "op": "RdLines", "lines": t.Lex(text), "raw": text, "st": r.St, "diff": hunksOrEmpty(v.ProjectDiff(d)), "msg": r.Msg})
			if r.St == "ok" {
				applyAll(id, func() (jd.Diff, bool) { x, err := jd.ReadDiffString(text); return x, err == nil }, 2)
			}
		}
		w.Emit(shard, Rec{"sess": id, "op": "End"})
	}

	// (3) arbitrary operation sequences through ReadPatchString
	ops := loadNdjson[codec.Op](p.Universe, "opkinds")
	opSession := func(seq []codec.Op) {
		if !own() {
			return
		}
		text := t.OpsText(seq)
		w.Sess[shard]++
		var d jd.Diff
		r := drive.Guard(func() drive.Res {
			x, err := jd.ReadPatchString(text)
			if err != nil {
				return drive.Res{St: "err", Msg: err.Error()}
			}
			d = x
			return drive.Res{St: "ok"}
		})
		w.Emit(shard, Rec{"sess": id, "op": "RdOps", "raw": text, "st": r.St, "diff": hunksOrEmpty(v.ProjectDiff(d)), "msg": r.Msg})
		if r.St == "ok" && len(d) > 0 {
			applyAll(id, func() (jd.Diff, bool) { x, err := jd.ReadPatchString(text); return x, err == nil }, 3)
		}
		w.Emit(shard, Rec{"sess": id, "op": "End"})
	}
	for i := range ops {
		opSession([]codec.Op{ops[i]})
		for j := range ops {
			if quick && !keep(p.Seed, map[bool]float64{false: 0.5, true: 0.01}[tiny], "o2", i, j) {
				continue
			}
			opSession([]codec.Op{ops[i], ops[j]})
		}
	}
	nops := scale(8000)
	if !quick {
		nops = 60000
	}
	for c := 0; c < nops; c++ {
		n := 3 + pick(p.Seed, 3, "on", c)
		seq := make([]codec.Op, n)
		for i := range seq {
			seq[i] = ops[pick(p.Seed, len(ops), "ok", c, i)]
		}
		opSession(seq)
	}

	// (4) seeded byte-level mutations of valid texts through every reader
	rng := rand.New(rand.NewSource(p.Seed*7919 + int64(shard)))
	var seeds, decorated []struct{ kind, text string }
	fam := loadFamily(p.Universe, "deep")
	for i := 0; i < len(fam) && i < 40; i++ {
		a, b := fam[i].D, fam[(i*7+3)%len(fam)].D
		seeds = append(seeds, struct{ kind, text string }{"json", t.Text(a)})
		drive.Guard(func() drive.Res {
			ja, jb := v.MustInject(a), v.MustInject(b)
			seeds = append(seeds, struct{ kind, text string }{"yaml", ja.Yaml()})
			d := ja.Diff(jb)
			seeds = append(seeds, struct{ kind, text string }{"diff", d.Render()})
			if s, err := ja.Diff(jb).RenderPatch(); err == nil {
				seeds = append(seeds, struct{ kind, text string }{"patch", s})
			}
			if s, err := ja.Diff(jb, jd.MERGE).RenderMerge(); err == nil {
				seeds = append(seeds, struct{ kind, text string }{"merge", s})
			}
			seeds = append(seeds, struct{ kind, text string }{"diff", ja.Diff(jb, jd.MERGE).Render()})
			seeds = append(seeds, struct{ kind, text string }{"diff", ja.Diff(jb, jd.SET).Render()})
			return drive.Res{St: "ok"}
		})
	}
	// the valid texts once more in other clothes: byte-order mark (also alone on the first line), CRLF line ends,
	// leading blank lines, trailing blanks, a NUL at the end, no final newline
	for i, n := 0, len(seeds); i < n; i++ {
		sd := seeds[i]
		if i%3 != 0 && sd.kind != "diff" {
			continue
		}
		for _, deco := range []string{"\ufeff" + sd.text, "\ufeff\n" + sd.text, strings.ReplaceAll(sd.text, "\n", "\r\n"),
			"\n\n" + sd.text, " " + sd.text, sd.text + " \t", sd.text + "\x00", strings.TrimSuffix(sd.text, "\n"), sd.text + "\ufeff"} {
			decorated = append(decorated, struct{ kind, text string }{sd.kind, deco})
		}
	}
	for _, k := range []string{"diff", "patch", "merge", "json", "yaml"} {
		decorated = append(decorated, struct{ kind, text string }{k, "\ufeff"}, struct{ kind, text string }{k, "\ufeff\n"}, struct{ kind, text string }{k, "\r\n"})
	}
	// YAML that is not JSON: non-finite numbers, anchors and aliases (also recursive), tags, keys that are not strings,
	// timestamps, merge keys, documents and directives
	for _, y := range yamlSpecials {
		seeds = append(seeds, struct{ kind, text string }{"yaml", y})
	}
	alphabet := []byte("{}[]\",:-+@^ \n0123456789.eE\\/~ntu\x00\xff")
	nmut := scale(400)
	if !quick {
		nmut = 6000
	}
	fixed := append(append([]struct{ kind, text string }{}, decorated...), func() []struct{ kind, text string } {
		var o []struct{ kind, text string }
		for _, y := range yamlSpecials {
			o = append(o, struct{ kind, text string }{"yaml", y})
		}
		return o
	}()...)
	for c := -len(fixed); c < nmut; c++ {
		if c >= 0 && chunkN > 1 && c%chunkN != chunkI {
			rng.Intn(len(seeds)) // keep the generator in step
			continue
		}
		var sd struct{ kind, text string }
		if c < 0 {
			// every special / decorated text once as it is (by one shard and in the first chunk only)
			if shard != (-c)%p.Shards || chunkI != 0 {
				continue
			}
			sd = fixed[-c-1]
		} else {
			sd = seeds[rng.Intn(len(seeds))]
		}
		b := []byte(sd.text)
		for k := 0; c >= 0 && k < 1+rng.Intn(3) && len(b) > 0; k++ {
			pos := rng.Intn(len(b))
			switch rng.Intn(5) {
			case 0:
				b = append(b[:pos], b[pos+1:]...)
			case 1:
				b = append(b[:pos], append([]byte{alphabet[rng.Intn(len(alphabet))]}, b[pos:]...)...)
			case 2:
				b[pos] = alphabet[rng.Intn(len(alphabet))]
			case 3:
				b = b[:pos]
			case 4:
				b = append(b[:pos], append(append([]byte{}, b[pos:]...), b[pos:]...)...)
			}
		}
		text := string(b)
		id++ // every shard draws its own mutations (the generator is seeded per shard)
		sess := id*p.Shards + shard + 50000000
		w.Sess[shard]++
		var d jd.Diff
		var doc jd.JsonNode
		r := drive.Guard(func() drive.Res {
			var err error
			switch sd.kind {
			case "json":
				doc, err = jd.ReadJsonString(text)
			case "yaml":
				doc, err = jd.ReadYamlString(text)
			case "diff":
				d, err = jd.ReadDiffString(text)
			case "patch":
				d, err = jd.ReadPatchString(text)
			case "merge":
				d, err = jd.ReadMergeString(text)
			}
			if err != nil {
				return drive.Res{St: "err", Msg: err.Error()}
			}
			return drive.Res{St: "ok"}
		})
		w.Emit(shard, Rec{"sess": sess, "op": "Mut", "kind": sd.kind, "raw": text, "st": r.St})
		if r.St == "ok" && doc != nil {
			// a document that was read is a document: rendering it, comparing it, diffing it against another
			// document and patching it must end in a result or an error
			other := v.MustInject(targets[c2idx(c, len(targets))])
			use := func(name string, f func()) {
				ru := drive.Guard(func() drive.Res { f(); return drive.Res{St: "ok"} })
				w.Emit(shard, Rec{"sess": sess, "op": "Use", "kind": sd.kind, "what": name, "st": ru.St, "msg": ru.Msg})
			}
			use("json", func() { _ = doc.Json() })
			use("yaml", func() { _ = doc.Yaml() })
			use("equals", func() { _ = doc.Equals(doc); _ = doc.Equals(other); _ = other.Equals(doc, jd.SET) })
			use("diff-render", func() {
				_ = doc.Diff(other).Render()
				_ = other.Diff(doc).Render(jd.COLOR)
				_ = doc.Diff(doc, jd.SET).Render()
			})
			use("diff-translate", func() { dd := other.Diff(doc); _, _ = dd.RenderPatch(); _, _ = other.Diff(doc, jd.MERGE).RenderMerge() })
			use("patch", func() { _, _ = other.Patch(other.Diff(doc)); _, _ = doc.Patch(other.Diff(doc)) })
		}
		if r.St == "ok" && len(d) > 0 {
			for k := 0; k < 3; k++ {
				var x jd.Diff
				var err error
				switch sd.kind {
				case "diff":
					x, err = jd.ReadDiffString(text)
				case "patch":
					x, err = jd.ReadPatchString(text)
				case "merge":
					x, err = jd.ReadMergeString(text)
				}
				if err != nil {
					break
				}
				c2 := targets[c2idx(c+k*5, len(targets))]
				_, ra := v.Patch(c2, x, false)
				w.Emit(shard, Rec{"sess": sess, "op": "Apply", "c": c2, "res": ra})
			}
		}
		w.Emit(shard, Rec{"sess": sess, "op": "End"})
	}
}

func c2idx(c, n int) int {
	if c < 0 {
		c = -c
	}
	return c % n
}

var yamlSpecials = []string{
	".nan", ".inf", "-.inf", "a: .nan\n", "- .inf\n- 1\n", "a: [.NaN, -.INF]\n",
	"&a [*a]", "a: &x\n  b: *x\n", "a: &x [1, 2]\nb: *x\nc: *x\n", "*undefined", "a: &a [&b [&c [*a, *b, *c]]]\n",
	"!!binary aGVsbG8=", "!!set {a, b}", "!!omap [a: 1]", "!!float 1", "!!str 1", "!unknown x", "!!int abc", "!!python/object:os.system x",
	"? [1, 2]\n: 3\n", "1: 2\n", "1.5: x\n", "true: 1\n", "~: 1\n", "null: 1\n", "{[a]: b}", "{? {a: 1} : 2}",
	"2001-01-01", "a: 2001-12-14t21:59:43.10-05:00\n", "<<: {a: 1}\nb: 2\n", "a: {<<: [{b: 1}, {c: 2}]}\n", "<<: 1\n",
	"--- 1\n--- 2\n", "%YAML 1.1\n--- a\n", "--- \n...\n", "a: |\n  x\n   y\n", "a: >-\n\n  x\n", "\ufeffa: 1\n", "a: 1\r\nb: 2\r\n", "\ta: 1",
	"0x1F", "0o17", "017", "1_000", "190:20:30", "0b101", "+.inf", "1e400", "-1e400", "1e-400", "9223372036854775808", "-9223372036854775809", "18446744073709551616",
	"a: 1\na: 2\n", "{a: 1, a: 2}", "[", "{", "a: [", "- - - - - - - - - - - - - - - - - - - - x", "a: b: c", "@x", "`x", "key: \"\\x41\\u263A\\U0001F600\"",
}
