package main

import (
	"strings"

	jd "github.com/josephburnett/jd/v2"

	"jdv/codec"
	"jdv/drive"
)

func init() {
	drivers["dp"] = driveDP
	drivers["pt"] = drivePT
	drivers["eq"] = driveEQ
}

// forPairs enumerates the (a, b) pairs of a plan item and calls f with a
// global session id for the pairs this shard owns.
func forPairs(p *Plan, shard int, f func(id int, it *Item, ea, eb *Entry)) {
	id := 0
	chunkI, chunkN := chunkOf(p)
	voidE := &Entry{D: codec.Void(), NF: true}
	for ii := range p.Items {
		it := &p.Items[ii]
		if it.Mode == "built" {
			continue
		}
		if it.Mode == "paired" {
			// behaviours of the DocEdit machine: a = initial state, b = final state, targets = intermediate states
			for pi, pr := range loadPairs(p.Universe, it.Family) {
				if !keep(p.Seed, it.Frac, it.Family, "paired", pi) {
					continue
				}
				id++
				if id%p.Shards == shard && (chunkN <= 1 || (id/p.Shards)%chunkN == chunkI) {
					f(id, it, &Entry{D: pr.A, P: pr.Mids, NF: true}, &Entry{D: pr.B, P: pr.Mids, NF: true})
				}
			}
			continue
		}
		fam := loadFamily(p.Universe, it.Family)
		sel := make([]*Entry, 0, len(fam))
		for k := range fam {
			if it.NF && !fam[k].NF {
				continue
			}
			sel = append(sel, &fam[k])
		}
		emit := func(ea, eb *Entry, i, j int) {
			if !keep(p.Seed, it.Frac, it.Family, it.Opts.Tag(), i, j) {
				return
			}
			id++
			if id%p.Shards == shard && (chunkN <= 1 || (id/p.Shards)%chunkN == chunkI) {
				f(id, it, ea, eb)
			}
		}
		for i, ea := range sel {
			for j, eb := range sel {
				emit(ea, eb, i, j)
			}
		}
		if it.Void {
			for i, e := range sel {
				emit(voidE, e, -1, i)
				emit(e, voidE, i, -1)
			}
			emit(voidE, voidE, -1, -1)
		}
	}
}

// dp: diff then patch.  Events: Begin, Diff, PatchStep*, Equals, End.
func driveDP(p *Plan, shard int, w *Writer, t *codec.Table) {
	v := drive.NewV2(t)
	forPairs(p, shard, func(id int, it *Item, ea, eb *Entry) {
		a, b, o := ea.D, eb.D, it.Opts
		v.NegZeroB = it.Mode == "negzero"
		yaml := p.YamlEvery > 0 && id%p.YamlEvery == 0 && !a.IsVoid() && !b.IsVoid() && !v.NegZeroB
		w.Sess[shard]++
		w.Emit(shard, Rec{"sess": id, "op": "Begin", "a": a, "b": b, "opts": o, "yaml": yaml, "fam": it.Family})
		d, r := v.Diff(a, b, o, yaml)
		w.Emit(shard, Rec{"sess": id, "op": "Diff", "st": r.St, "diff": hunksOrEmpty(r.Diff), "msg": r.Msg})
		if r.St != "ok" {
			w.Emit(shard, Rec{"sess": id, "op": "End"})
			return
		}
		n := len(d)
		// the literal run: the diff exactly as returned, applied to a fresh a
		patched, full := v.Patch(a, d, yaml)
		// intermediate documents: prefixes of a freshly computed diff on fresh documents
		for k := 1; k < n; k++ {
			d2, r2 := v.Diff(a, b, o, yaml)
			if r2.St != "ok" || len(d2) != n {
				w.Emit(shard, Rec{"sess": id, "op": "PatchStep", "k": k, "res": drive.Res{St: "err", Msg: "diff not reproducible"}})
				continue
			}
			_, rk := v.Patch(a, d2[:k], yaml)
			w.Emit(shard, Rec{"sess": id, "op": "PatchStep", "k": k, "res": rk})
		}
		if n > 0 {
			w.Emit(shard, Rec{"sess": id, "op": "PatchStep", "k": n, "res": full})
		}
		if full.St == "ok" && patched != nil {
			w.Emit(shard, Rec{"sess": id, "op": "Equals", "res": v.EqualsJ(patched, b, o, yaml)})
		} else {
			w.Emit(shard, Rec{"sess": id, "op": "Equals", "res": drive.Res{St: "err", Msg: "no patched document"}})
		}
		// the patched document is a document like any other: diffing it against b (it Equals b) must give an empty diff
		if full.St == "ok" && patched != nil {
			var n1, n2 int
			var eqp bool
			rr := drive.Guard(func() drive.Res {
				jb, err := v.InjectB(b, yaml)
				if err != nil {
					return drive.Res{St: "err", Msg: err.Error()}
				}
				opts := v.Options(o)
				eqp = patched.Equals(jb, opts...)
				n1, n2 = len(patched.Diff(jb, opts...)), len(jb.Diff(patched, opts...))
				return drive.Res{St: "ok"}
			})
			w.Emit(shard, Rec{"sess": id, "op": "Rediff", "st": rr.St, "eq": eqp, "n1": n1, "n2": n2})
		}
		// Equals(a, b) on fresh documents, for the empty-iff-equal clause
		w.Emit(shard, Rec{"sess": id, "op": "EqualsAB", "res": v.Equals(a, b, o, yaml)})
		// the statement once more on one set of live values: Patch on the very a the diff was computed from
		sr, se := v.DiffPatchSame(a, b, o, yaml)
		w.Emit(shard, Rec{"sess": id, "op": "Same", "res": sr, "eq": se})
		w.Emit(shard, Rec{"sess": id, "op": "End"})
	})
}

// subsequences of hunk indices: all 2^n - 1 non-empty ones for n <= 4, else a seeded sample
func subsets(n int, seed int64, id int, max int) [][]int {
	var out [][]int
	if n == 0 {
		return out
	}
	full := make([]int, n)
	for i := range full {
		full[i] = i
	}
	out = append(out, full)
	if n == 1 {
		return out
	}
	if n <= 4 {
		for m := 1; m < (1<<n)-1; m++ {
			var s []int
			for i := 0; i < n; i++ {
				if m&(1<<i) != 0 {
					s = append(s, i)
				}
			}
			out = append(out, s)
		}
	} else {
		for c := 0; c < max; c++ {
			var s []int
			for i := 0; i < n; i++ {
				if pick(seed, 2, "sub", id, c, i) == 1 {
					s = append(s, i)
				}
			}
			if len(s) > 0 && len(s) < n {
				out = append(out, s)
			}
		}
	}
	if max > 0 && len(out) > max {
		out = out[:max]
	}
	return out
}

// pt: apply (sub-sequences of) a generated diff to arbitrary targets.
// Events: Begin(a,b,opts,diff) then per (sub, target): Target(sub, c), PatchStep*, then End.
func drivePT(p *Plan, shard int, w *Writer, t *codec.Table) {
	v := drive.NewV2(t)
	forPairs(p, shard, func(id int, it *Item, ea, eb *Entry) {
		a, b, o := ea.D, eb.D, it.Opts
		d, r := v.Diff(a, b, o, false)
		if r.St != "ok" || len(d) == 0 {
			return
		}
		w.Sess[shard]++
		w.Emit(shard, Rec{"sess": id, "op": "Begin", "a": a, "b": b, "opts": o, "fam": it.Family})
		w.Emit(shard, Rec{"sess": id, "op": "Diff", "st": r.St, "diff": hunksOrEmpty(r.Diff), "msg": r.Msg})
		// targets: a, b, perturbations of a and of b (and permutations for set modes)
		targets := []codec.Node{a, b}
		maxT := it.Max
		if maxT == 0 {
			maxT = 8
		}
		cand := append(append(append([]codec.Node{}, ea.P...), eb.P...), append(append([]codec.Node{}, ea.Q...), eb.Q...)...)
		if len(cand) <= maxT {
			targets = append(targets, cand...)
		} else {
			for c := 0; c < maxT; c++ {
				targets = append(targets, cand[pick(p.Seed, len(cand), "tgt", id, c)])
			}
		}
		maxS := 6
		if it.Mode == "whole" {
			maxS = 1
		}
		subs := subsets(len(d), p.Seed, id, maxS)
		tno := 0
		for si, sub := range subs {
			for ti, c := range targets {
				tno++
				if si > 0 && ti >= 4 { // sub-diffs get fewer targets
					break
				}
				w.Emit(shard, Rec{"sess": id, "op": "Target", "t": tno, "sub": sub, "c": c})
				for k := 1; k <= len(sub); k++ {
					// fresh diff every time: Patch may retain or change what it is given
					d2, r2 := v.Diff(a, b, o, false)
					if r2.St != "ok" || len(d2) != len(d) {
						w.Emit(shard, Rec{"sess": id, "op": "PatchStep", "k": k, "res": drive.Res{St: "err", Msg: "diff not reproducible"}})
						continue
					}
					sd := d2[:0:0]
					for _, ix := range sub[:k] {
						sd = append(sd, d2[ix])
					}
					if tno%3 == 0 {
						// every third target gets the hunks as a hand-edited TEXT: rendered, the final line end cut off
						// (or a blank line put in front), and read back
						var rd jd.Diff
						rr := drive.Guard(func() drive.Res {
							txt := strings.TrimSuffix(sd.Render(), "\n")
							if tno%2 == 0 {
								txt = "\n" + txt + "\n"
							}
							x, err := drive.ReadDiffAny(txt)
							if err != nil {
								return drive.Res{St: "err", Msg: "reading the hunks as text: " + err.Error()}
							}
							rd = x
							return drive.Res{St: "ok"}
						})
						if rr.St != "ok" {
							w.Emit(shard, Rec{"sess": id, "op": "PatchStep", "k": k, "res": drive.Res{St: "panic", Msg: rr.Msg}})
							break
						}
						sd = rd
					}
					_, rk := v.Patch(c, sd, false)
					w.Emit(shard, Rec{"sess": id, "op": "PatchStep", "k": k, "res": rk})
					if rk.St != "ok" {
						break
					}
				}
			}
		}
		w.Emit(shard, Rec{"sess": id, "op": "End"})
	})
}

// eq: Equals in both directions and reflexively.
func driveEQ(p *Plan, shard int, w *Writer, t *codec.Table) {
	v := drive.NewV2(t)
	forPairs(p, shard, func(id int, it *Item, ea, eb *Entry) {
		a, b, o := ea.D, eb.D, it.Opts
		v.NegZeroB = it.Mode == "negzero"
		yaml := p.YamlEvery > 0 && id%p.YamlEvery == 0 && !a.IsVoid() && !b.IsVoid() && !v.NegZeroB
		w.Sess[shard]++
		w.Emit(shard, Rec{"sess": id, "op": "Eq", "a": a, "b": b, "opts": o, "yaml": yaml,
			"ab": v.Equals(a, b, o, yaml), "ba": v.Equals(b, a, o, yaml), "aa": v.Equals(a, a, o, yaml)})
	})
}

func hunksOrEmpty(h []codec.Hunk) []codec.Hunk {
	if h == nil {
		return []codec.Hunk{}
	}
	return h
}

type editPair struct {
	A    codec.Node   `json:"a"`
	B    codec.Node   `json:"b"`
	Mids []codec.Node `json:"mids"`
}

func loadPairs(dir, name string) []editPair {
	return loadNdjson[editPair](dir, name)
}

// chunkOf: a large plan is driven and judged in chunks (one TLC run each): extra.chunk = [index, count]
func chunkOf(p *Plan) (int, int) {
	if c, ok := p.Extra["chunk"].([]any); ok && len(c) == 2 {
		return int(c[0].(float64)), int(c[1].(float64))
	}
	return 0, 1
}
