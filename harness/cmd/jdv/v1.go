package main

import (
	jd1 "github.com/josephburnett/jd/lib"

	"jdv/codec"
	"jdv/drive"
)

func init() {
	drivers["v1"] = driveV1
}

func v1Res(v *drive.V1, f func() (jd1.JsonNode, error)) (jd1.JsonNode, drive.Res) {
	var out jd1.JsonNode
	r := drive.Guard(func() drive.Res {
		x, err := f()
		if err != nil {
			return drive.Res{St: "err", Msg: err.Error()}
		}
		n := v.Project(x)
		out = x
		return drive.Res{St: "ok", Doc: &n}
	})
	return out, r
}

func v1Eq(v *drive.V1, x jd1.JsonNode, b codec.Node, md []jd1.Metadata) bool {
	ok := false
	drive.Guard(func() drive.Res {
		if x != nil {
			ok = x.Equals(v.MustInjectB(b), md...)
		}
		return drive.Res{St: "ok"}
	})
	return ok
}

// v1: the v1 library: diff, patch, equality, text / JSON Patch / merge patch round trips (C17, C18).
func driveV1(p *Plan, shard int, w *Writer, t *codec.Table) {
	v := drive.NewV1(t)
	forPairs(p, shard, func(id int, it *Item, ea, eb *Entry) {
		a, b, o := ea.D, eb.D, it.Opts
		v.NegZeroB = it.Mode == "negzero"
		md := v.Metadata(o)
		fresh := func() (jd1.JsonNode, jd1.JsonNode) { return v.MustInject(a), v.MustInjectB(b) }
		var d jd1.Diff
		r := drive.Guard(func() drive.Res { x, y := fresh(); d = x.Diff(y, md...); return drive.Res{St: "ok"} })
		w.Sess[shard]++
		w.Emit(shard, Rec{"sess": id, "op": "V1Begin", "a": a, "b": b, "opts": o})
		hs := v.ProjectDiff(d)
		if hs == nil {
			hs = []drive.V1Hunk{}
		}
		w.Emit(shard, Rec{"sess": id, "op": "Diff1", "st": r.St, "diff": hs})
		if r.St != "ok" {
			w.Emit(shard, Rec{"sess": id, "op": "End"})
			return
		}
		n := len(d)
		patched, full := v1Res(v, func() (jd1.JsonNode, error) { x, _ := fresh(); return x.Patch(d) })
		for k := 1; k < n; k++ {
			_, rk := v1Res(v, func() (jd1.JsonNode, error) { x, y := fresh(); return x.Patch(x.Diff(y, md...)[:k]) })
			w.Emit(shard, Rec{"sess": id, "op": "PatchStep", "k": k, "res": rk})
		}
		if n > 0 {
			w.Emit(shard, Rec{"sess": id, "op": "PatchStep", "k": n, "res": full})
		}
		eq := v1Eq(v, patched, b, md)
		w.Emit(shard, Rec{"sess": id, "op": "Equals", "res": drive.Res{St: full.St, Bool: &eq}})
		var eab bool
		re := drive.Guard(func() drive.Res { x, y := fresh(); eab = x.Equals(y, md...); return drive.Res{St: "ok"} })
		w.Emit(shard, Rec{"sess": id, "op": "EqualsAB", "res": drive.Res{St: re.St, Bool: &eab}})
		// the patched document is a document like any other: its diff against b is empty exactly when it Equals b
		if full.St == "ok" && patched != nil {
			var n1, n2 int
			var eqp bool
			rr := drive.Guard(func() drive.Res {
				_, y := fresh()
				eqp = patched.Equals(y, md...)
				n1, n2 = len(patched.Diff(y, md...)), len(y.Diff(patched, md...))
				return drive.Res{St: "ok"}
			})
			w.Emit(shard, Rec{"sess": id, "op": "Rediff", "st": rr.St, "eq": eqp, "n1": n1, "n2": n2})
		}
		// the statement once more on one set of live values: Patch on the very a the diff was computed from
		var seq bool
		_, sres := v1Res(v, func() (jd1.JsonNode, error) {
			x, y := fresh()
			p, err := x.Patch(x.Diff(y, md...))
			if err == nil {
				seq = p.Equals(y, md...)
			}
			return p, err
		})
		w.Emit(shard, Rec{"sess": id, "op": "Same", "res": sres, "eq": seq})
		// native text round trip
		trip := func(op string, render func(jd1.Diff) (string, error), read func(string) (jd1.Diff, error)) {
			var text string
			rr := drive.Guard(func() drive.Res {
				x, y := fresh()
				s, err := render(x.Diff(y, md...))
				if err != nil {
					return drive.Res{St: "err", Msg: err.Error()}
				}
				text = s
				return drive.Res{St: "ok"}
			})
			if rr.St != "ok" {
				return
			}
			var d2 jd1.Diff
			rd := drive.Guard(func() drive.Res {
				x, err := read(text)
				if err != nil {
					return drive.Res{St: "err", Msg: err.Error()}
				}
				d2 = x
				return drive.Res{St: "ok"}
			})
			rec := Rec{"sess": id, "op": op, "read": rd.St, "raw": text, "msg": rd.Msg}
			if rd.St == "ok" {
				pd, rp := v1Res(v, func() (jd1.JsonNode, error) { x, _ := fresh(); return x.Patch(d2) })
				rec["res"] = rp
				rec["eq"] = v1Eq(v, pd, b, md)
			}
			w.Emit(shard, rec)
		}
		trip("TextTrip", func(d jd1.Diff) (string, error) { return d.Render(), nil }, jd1.ReadDiffString)
		if !o.Merge {
			var text string
			rr := drive.Guard(func() drive.Res {
				x, y := fresh()
				s, err := x.Diff(y, md...).RenderPatch()
				if err != nil {
					return drive.Res{St: "err", Msg: err.Error()}
				}
				text = s
				return drive.Res{St: "ok"}
			})
			ops, parsed := t.ParseOps(text)
			w.Emit(shard, Rec{"sess": id, "op": "RenderPatch", "st": rr.St, "ops": opsOrEmpty(ops), "parsed": parsed, "raw": text, "msg": rr.Msg})
			if rr.St == "ok" {
				trip("PatchTrip", func(d jd1.Diff) (string, error) { return d.RenderPatch() }, jd1.ReadPatchString)
			}
		} else {
			var text string
			rr := drive.Guard(func() drive.Res {
				x, y := fresh()
				s, err := x.Diff(y, md...).RenderMerge()
				if err != nil {
					return drive.Res{St: "err", Msg: err.Error()}
				}
				text = s
				return drive.Res{St: "ok"}
			})
			pn, ok := t.ParseStrict(text)
			if !ok {
				pn = codec.InvalidNode
			}
			w.Emit(shard, Rec{"sess": id, "op": "RenderMerge", "st": rr.St, "p": pn, "raw": text, "msg": rr.Msg})
			if rr.St == "ok" {
				trip("MergeTrip", func(d jd1.Diff) (string, error) { return d.RenderMerge() }, jd1.ReadMergeString)
			}
		}
		w.Emit(shard, Rec{"sess": id, "op": "End"})
	})
}
