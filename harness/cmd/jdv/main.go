// jdv: the driver half of the conformance loop.  It reads scenarios exported
// by TLC (document universes, generated hunks, histories), runs them through
// the real jd library / binaries and writes what happened as ndjson trace
// shards which TLC then validates against the specification.
package main

import (
	"bufio"
	"encoding/json"
	"fmt"
	"hash/fnv"
	"os"
	"path/filepath"
	"sync"

	"jdv/codec"
)

type Item struct {
	Family string     `json:"family"`
	Opts   codec.Opts `json:"opts"`
	Frac   float64    `json:"frac"` // fraction of ordered pairs kept (hash sampled)
	Void   bool       `json:"void"` // also pair every document with the void document
	Mode   string     `json:"mode"` // driver specific
	NF     bool       `json:"nf"`   // null-free documents only
	Max    int        `json:"max"`  // cap on targets / variants per session (0 = driver default)
}

type Plan struct {
	Driver    string            `json:"driver"`
	Seed      int64             `json:"seed"`
	Shards    int               `json:"shards"`
	Out       string            `json:"out"`
	Universe  string            `json:"universe"`
	Table     string            `json:"table"`
	Items     []Item            `json:"items"`
	YamlEvery int               `json:"yaml_every"`
	Bins      map[string]string `json:"bins"`
	Extra     map[string]any    `json:"extra"`
}

type Entry struct {
	D  codec.Node   `json:"d"`
	P  []codec.Node `json:"p"`
	Q  []codec.Node `json:"q"`
	NF bool         `json:"nf"`
}

var universeCache = map[string][]Entry{}
var universeMu sync.Mutex

func loadFamily(dir, name string) []Entry {
	universeMu.Lock()
	defer universeMu.Unlock()
	if e, ok := universeCache[name]; ok {
		return e
	}
	f, err := os.Open(filepath.Join(dir, name+".ndjson"))
	if err != nil {
		fatal("universe: %v", err)
	}
	defer f.Close()
	var out []Entry
	sc := bufio.NewScanner(f)
	sc.Buffer(make([]byte, 1<<20), 1<<28)
	for sc.Scan() {
		if len(sc.Bytes()) == 0 {
			continue
		}
		var e Entry
		if err := json.Unmarshal(sc.Bytes(), &e); err != nil {
			fatal("universe %s: %v", name, err)
		}
		out = append(out, e)
	}
	universeCache[name] = out
	return out
}

func fatal(f string, a ...any) {
	fmt.Fprintf(os.Stderr, "jdv: "+f+"\n", a...)
	os.Exit(2)
}

// keep decides hash-sampling deterministically from the seed.
func keep(seed int64, frac float64, parts ...any) bool {
	if frac >= 1 {
		return true
	}
	if frac <= 0 {
		return false
	}
	h := fnv.New64a()
	fmt.Fprint(h, seed)
	for _, p := range parts {
		fmt.Fprint(h, "|", p)
	}
	return float64(h.Sum64()%1000003)/1000003.0 < frac
}

func pick(seed int64, n int, parts ...any) int {
	h := fnv.New64a()
	fmt.Fprint(h, seed)
	for _, p := range parts {
		fmt.Fprint(h, "|", p)
	}
	if n <= 0 {
		return 0
	}
	return int(h.Sum64() % uint64(n))
}

// Writer writes trace records to shard files.  A session lives in one shard.
type Writer struct {
	files []*os.File
	bufs  []*bufio.Writer
	Count []int
	Sess  []int
}

func NewWriter(dir string, shards int) *Writer {
	w := &Writer{Count: make([]int, shards), Sess: make([]int, shards)}
	for k := 0; k < shards; k++ {
		f, err := os.Create(filepath.Join(dir, fmt.Sprintf("shard%d.ndjson", k)))
		if err != nil {
			fatal("%v", err)
		}
		w.files = append(w.files, f)
		w.bufs = append(w.bufs, bufio.NewWriterSize(f, 1<<20))
	}
	return w
}

type Rec map[string]any

// Only restricts the trace to one session (replay of a recorded failure); 0 = everything.
var Only int

func (w *Writer) Emit(shard int, r Rec) {
	if Only != 0 {
		if s, ok := r["sess"].(int); !ok || s != Only {
			return
		}
	}
	b, err := json.Marshal(r)
	if err != nil {
		fatal("marshal: %v", err)
	}
	w.bufs[shard].Write(b)
	w.bufs[shard].WriteByte('\n')
	w.Count[shard]++
}

func (w *Writer) Close() {
	for k := range w.files {
		w.bufs[k].Flush()
		w.files[k].Close()
	}
}

// A driver enumerates sessions; worker k runs those with id % shards == k.
type Driver func(p *Plan, shard int, w *Writer, t *codec.Table)

var drivers = map[string]Driver{}

func main() {
	if len(os.Args) < 2 {
		fatal("usage: jdv <plan.json>")
	}
	planFile := os.Args[1]
	if os.Args[1] == "--apiref" {
		planFile = os.Args[2]
	}
	raw, err := os.ReadFile(planFile)
	if err != nil {
		fatal("%v", err)
	}
	var p Plan
	if err := json.Unmarshal(raw, &p); err != nil {
		fatal("plan: %v", err)
	}
	if p.Shards == 0 {
		p.Shards = 16
	}
	if o, ok := p.Extra["only"].(float64); ok {
		Only = int(o)
	}
	drv, ok := drivers[p.Driver]
	if !ok {
		fatal("unknown driver %q", p.Driver)
	}
	t := loadTable(p.Table)
	if os.Args[1] == "--apiref" {
		apiRef(&p, t)
		return
	}
	w := NewWriter(p.Out, p.Shards)
	var wg sync.WaitGroup
	for k := 0; k < p.Shards; k++ {
		wg.Add(1)
		go func(k int) {
			defer wg.Done()
			drv(&p, k, w, t)
		}(k)
	}
	wg.Wait()
	w.Close()
	tot, sess := 0, 0
	for k := range w.Count {
		tot += w.Count[k]
		sess += w.Sess[k]
	}
	sum, _ := json.Marshal(map[string]any{"records": tot, "sessions": sess, "per_shard": w.Count})
	os.WriteFile(filepath.Join(p.Out, "summary.json"), sum, 0644)
	fmt.Printf("jdv: driver=%s sessions=%d records=%d\n", p.Driver, sess, tot)
}

func loadTable(name string) *codec.Table {
	if name == "" || name == "plain" {
		return codec.PlainTable()
	}
	raw, err := os.ReadFile(name)
	if err != nil {
		fatal("table: %v", err)
	}
	t := codec.PlainTable()
	var u codec.Table
	if err := json.Unmarshal(raw, &u); err != nil {
		fatal("table: %v", err)
	}
	t.Name = u.Name
	for k, v := range u.Strings {
		t.Strings[k] = v
	}
	for k, v := range u.Keys {
		t.Keys[k] = v
	}
	for k, v := range u.Numbers {
		t.Numbers[k] = v
	}
	t.Init()
	return t
}
