package main

import (
	"fmt"
	"os"
	"path/filepath"

	jd "github.com/josephburnett/jd/v2"

	"jdv/codec"
	"jdv/drive"
)

func init() {
	drivers["ya"] = driveYA
}

// ya: JSON and YAML as interchangeable carriers (C16).
func driveYA(p *Plan, shard int, w *Writer, t *codec.Table) {
	v := drive.NewV2(t)
	tmp, err := os.MkdirTemp(p.Out, "ya")
	if err != nil {
		fatal("%v", err)
	}
	defer os.RemoveAll(tmp)
	id := 0
	for _, it := range p.Items {
		fam := loadFamily(p.Universe, it.Family)
		for fi := range fam {
			id++
			if id%p.Shards != shard || !keep(p.Seed, it.Frac, "ya", it.Family, fi) {
				continue
			}
			n := fam[fi].D
			if n.IsVoid() {
				continue
			}
			w.Sess[shard]++
			rec := Rec{"sess": id, "op": "Ya", "n": n, "fam": it.Family}
			leg := func(f func() (jd.JsonNode, error)) codec.Node {
				out := codec.InvalidNode
				drive.Guard(func() drive.Res {
					x, err := f()
					if err == nil && x != nil {
						out = v.Project(x)
					}
					return drive.Res{St: "ok"}
				})
				return out
			}
			rec["yy"] = leg(func() (jd.JsonNode, error) { return jd.ReadYamlString(v.MustInject(n).Yaml()) })
			rec["jj"] = leg(func() (jd.JsonNode, error) { return jd.ReadJsonString(v.MustInject(n).Json()) })
			rec["jy"] = leg(func() (jd.JsonNode, error) { return jd.ReadYamlString(v.MustInject(n).Json()) })
			eq := false
			drive.Guard(func() drive.Res {
				yb, err := jd.ReadYamlString(v.MustInject(n).Yaml())
				if err != nil {
					return drive.Res{St: "err"}
				}
				jb := v.MustInject(n)
				eq = yb.Equals(jb) && jb.Equals(yb) && len(yb.Diff(jb)) == 0
				return drive.Res{St: "ok"}
			})
			rec["eq"] = eq
			// patches: the diff from n to a perturbed n (computed on JSON-born values) applied to the YAML-born n
			// and to the JSON-born n must deliver the same document
			pys := []Rec{}
			for pi, m := range fam[fi].P {
				if m.IsVoid() || len(pys) >= 4 || !keep(p.Seed, 0.5, "yapatch", id, pi) {
					continue
				}
				apply := func(born func() (jd.JsonNode, error)) codec.Node {
					return leg(func() (jd.JsonNode, error) {
						x, err := born()
						if err != nil {
							return nil, err
						}
						return x.Patch(v.MustInject(n).Diff(v.MustInject(m)))
					})
				}
				gy := apply(func() (jd.JsonNode, error) { return jd.ReadYamlString(v.MustInject(n).Yaml()) })
				gj := apply(func() (jd.JsonNode, error) { return jd.ReadJsonString(v.MustInject(n).Json()) })
				pys = append(pys, Rec{"m": m, "gy": gy, "gj": gj})
			}
			rec["pys"] = pys
			// through the binaries: json2yaml | yaml2json, and -yaml diff followed by -yaml -p
			if bin := p.Bins["v2"]; bin != "" && keep(p.Seed, 0.5, "yacli", id) {
				dir := filepath.Join(tmp, fmt.Sprint(id))
				os.MkdirAll(dir, 0755)
				fj := filepath.Join(dir, "n.json")
				os.WriteFile(fj, []byte(t.Text(n)), 0644)
				b1 := bin
				if id%3 == 0 {
					b1 = p.Bins["top"]
				}
				r1 := runProc(b1, []string{"-t", "json2yaml", fj}, nil, dir)
				fy := filepath.Join(dir, "n.yaml")
				os.WriteFile(fy, []byte(r1.Stdout), 0644)
				r2 := runProc(b1, []string{"-t", "yaml2json", fy}, nil, dir)
				doc, ok := t.FromText(r2.Stdout)
				if ok != nil || r1.Exit != 0 || r2.Exit != 0 {
					doc = codec.InvalidNode
				}
				rec["cli"] = doc
				// -yaml diff from a fixed document to n, then -yaml -p
				base := codec.Arr(codec.Num(8))
				fb := filepath.Join(dir, "base.yaml")
				os.WriteFile(fb, []byte(t.Text(base)), 0644)
				r3 := runProc(b1, []string{"-yaml", fb, fy}, nil, dir)
				fd := filepath.Join(dir, "d.jd")
				os.WriteFile(fd, []byte(r3.Stdout), 0644)
				r4 := runProc(b1, []string{"-yaml", "-p", fd, fb}, nil, dir)
				doc2, ok2 := parseDoc(t, r4.Stdout, true)
				if !ok2 || r3.Exit > 1 || r3.Exit < 0 || r4.Exit != 0 {
					doc2 = codec.InvalidNode
				}
				rec["cli2"] = doc2
				rec["b"] = n
				os.RemoveAll(dir)
			}
			w.Emit(shard, rec)
		}
	}
}
