module jdv

go 1.24.0

require (
	github.com/josephburnett/jd v0.0.0
	github.com/josephburnett/jd/v2 v2.0.0
	gopkg.in/yaml.v2 v2.4.0
)

require (
	github.com/go-openapi/jsonpointer v0.21.0 // indirect
	github.com/go-openapi/swag v0.23.0 // indirect
	github.com/josharian/intern v1.0.0 // indirect
	github.com/mailru/easyjson v0.7.7 // indirect
	github.com/yudai/golcs v0.0.0-20170316035057-ecda9a501e82 // indirect
	golang.org/x/exp v0.0.0-20250305212735-054e65f0b394 // indirect
	gopkg.in/yaml.v3 v3.0.1 // indirect
)

replace github.com/josephburnett/jd => /repo

replace github.com/josephburnett/jd/v2 => /repo/v2
