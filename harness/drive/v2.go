// Package drive calls the public jd API and reports what it did.  Every
// call is wrapped in recover() and a watchdog.
package drive

import (
	"fmt"
	"hash/fnv"
	"math"
	"os"
	"reflect"
	"time"

	jd "github.com/josephburnett/jd/v2"

	"jdv/codec"
)

type V2 struct {
	T    *codec.Table
	void jd.JsonNode
	// NegZeroB: the second document of a pair (b) spells its numeric zeros -0 - the same number, so the
	// specification sees no difference between the session and the plain one
	NegZeroB bool
}

func NewV2(t *codec.Table) *V2 {
	v, err := jd.ReadJsonString("")
	if err != nil {
		panic(err)
	}
	return &V2{T: t, void: v}
}

// Res is the outcome of one call.
type Res struct {
	St   string       `json:"st"` // ok | err | panic | hang
	Doc  *codec.Node  `json:"doc,omitempty"`
	Bool *bool        `json:"bool,omitempty"`
	Text *string      `json:"text,omitempty"`
	Diff []codec.Hunk `json:"diff,omitempty"`
	Msg  string       `json:"msg,omitempty"`
}

const Watchdog = 60 * time.Second // generous: a busy machine must not look like a hang

// Guard runs f under recover() and a watchdog.
func Guard(f func() Res) (res Res) {
	done := make(chan Res, 1)
	go func() {
		defer func() {
			if r := recover(); r != nil {
				done <- Res{St: "panic", Msg: fmt.Sprint(r)}
			}
		}()
		done <- f()
	}()
	select {
	case r := <-done:
		return r
	case <-time.After(Watchdog):
		return Res{St: "hang"}
	}
}

// Inject builds a fresh JsonNode from a node (through the JSON reader, or the
// YAML reader when yaml is set: JSON text is valid YAML).
func (v *V2) Inject(n codec.Node, yaml bool) (jd.JsonNode, error) {
	if n.IsVoid() {
		return v.void, nil
	}
	if yaml {
		return jd.ReadYamlString(v.T.Text(n))
	}
	return v.enter(n, false)
}

// enter builds the document through one of the library's entry points, chosen by a hash of its text: ReadJsonString on
// one of the spellings (most), NewJsonNode on plain Go values (integral numbers as int), ReadJsonFile on a temporary file.
func (v *V2) enter(n codec.Node, negz bool) (jd.JsonNode, error) {
	plain := v.T.Text(n)
	h := fnv.New32a()
	h.Write([]byte(plain))
	switch h.Sum32() / 7 % 8 {
	case 6:
		if !negz {
			if r, ok := v.T.Raw(n); ok {
				return jd.NewJsonNode(goValue(r))
			}
		}
	case 7:
		f, err := os.CreateTemp("", "jdv-doc-*.json")
		if err == nil {
			defer os.Remove(f.Name())
			f.WriteString(v.T.Spell(n, negz))
			f.Close()
			return jd.ReadJsonFile(f.Name())
		}
	}
	return jd.ReadJsonString(v.T.Spell(n, negz))
}

// goValue turns integral float64 numbers into int, as a Go caller of NewJsonNode would write them.
func goValue(r any) any {
	switch x := r.(type) {
	case float64:
		if x == math.Trunc(x) && math.Abs(x) < 1e15 && !(x == 0 && math.Signbit(x)) {
			return int(x)
		}
	case []any:
		out := make([]any, len(x))
		for i, e := range x {
			out[i] = goValue(e)
		}
		return out
	case map[string]any:
		out := map[string]any{}
		for k, e := range x {
			out[k] = goValue(e)
		}
		return out
	}
	return r
}

// InjectB is Inject for the b side of a pair.
func (v *V2) InjectB(n codec.Node, yaml bool) (jd.JsonNode, error) {
	if !v.NegZeroB || n.IsVoid() {
		return v.Inject(n, yaml)
	}
	if yaml {
		return jd.ReadYamlString(v.T.TextNZ(n))
	}
	return v.enter(n, true)
}

func (v *V2) MustInject(n codec.Node) jd.JsonNode {
	j, err := v.Inject(n, false)
	if err != nil {
		panic(fmt.Sprintf("codec: cannot inject %v: %v", v.T.Text(n), err))
	}
	return j
}

// Project reads a JsonNode back through its JSON rendering.
func (v *V2) Project(j jd.JsonNode) codec.Node {
	if j == nil {
		return codec.Node{K: "x", V: "?nil"}
	}
	if TooDeep(j) {
		// a cyclic value would overflow the stack inside Json() - a fatal error no recover() can catch
		panic("jd produced a cyclic (or absurdly deep) document")
	}
	txt := j.Json()
	n, err := v.T.FromText(txt)
	if err != nil {
		return codec.Node{K: "x", V: "?unparsable:" + txt}
	}
	return n
}

// TooDeep reports whether a value nests deeper than any document of the universes can (the nodes of jd are
// maps and slices of interfaces: walked with reflection, never through jd's own recursive methods).
func TooDeep(j any) bool { return tooDeep(reflect.ValueOf(j), 0) }

func tooDeep(x reflect.Value, depth int) bool {
	if depth > 200 {
		return true
	}
	switch x.Kind() {
	case reflect.Interface, reflect.Pointer:
		if x.IsNil() {
			return false
		}
		return tooDeep(x.Elem(), depth+1)
	case reflect.Map:
		it := x.MapRange()
		for it.Next() {
			if tooDeep(it.Value(), depth+1) {
				return true
			}
		}
	case reflect.Slice, reflect.Array:
		for i := 0; i < x.Len(); i++ {
			if tooDeep(x.Index(i), depth+1) {
				return true
			}
		}
	}
	return false
}

func (v *V2) ProjectList(l []jd.JsonNode) []codec.Node {
	out := make([]codec.Node, len(l))
	for i, e := range l {
		out[i] = v.Project(e)
	}
	return out
}

func (v *V2) InjectList(l []codec.Node) []jd.JsonNode {
	out := make([]jd.JsonNode, len(l))
	for i, e := range l {
		out[i] = v.MustInject(e)
	}
	return out
}

func (v *V2) Options(o codec.Opts) []jd.Option {
	var out []jd.Option
	if o.Set {
		out = append(out, jd.SET)
	}
	if o.Mset {
		out = append(out, jd.MULTISET)
	}
	if len(o.Keys) > 0 {
		ks := make([]string, len(o.Keys))
		for i, k := range o.Keys {
			ks[i] = v.T.Key(k)
		}
		out = append(out, jd.SetKeys(ks...))
	}
	if o.Merge {
		out = append(out, jd.MERGE)
	}
	if o.Eps != 0 {
		out = append(out, jd.Precision(float64(o.Eps)/8))
	}
	return out
}

func (v *V2) projectKeyObj(m map[string]jd.JsonNode) map[string]codec.Node {
	out := map[string]codec.Node{}
	for k, e := range m {
		out[v.T.KeySym(k)] = v.Project(e)
	}
	return out
}

func (v *V2) ProjectPath(p jd.Path) []codec.PathElem {
	out := make([]codec.PathElem, 0, len(p))
	for _, e := range p {
		switch e := e.(type) {
		case jd.PathKey:
			out = append(out, codec.PathElem{K: "key", V: v.T.KeySym(string(e))})
		case jd.PathIndex:
			out = append(out, codec.PathElem{K: "idx", V: int(e)})
		case jd.PathSet:
			out = append(out, codec.PathElem{K: "set", V: 0})
		case jd.PathMultiset:
			out = append(out, codec.PathElem{K: "mset", V: 0})
		case jd.PathSetKeys:
			out = append(out, codec.PathElem{K: "setkeys", V: v.projectKeyObj(e)})
		case jd.PathMultisetKeys:
			out = append(out, codec.PathElem{K: "msetkeys", V: v.projectKeyObj(e)})
		default:
			out = append(out, codec.PathElem{K: "key", V: fmt.Sprintf("?%T", e)})
		}
	}
	return out
}

func (v *V2) InjectPath(p []codec.PathElem) jd.Path {
	out := make(jd.Path, 0, len(p))
	for _, e := range p {
		switch e.K {
		case "key":
			out = append(out, jd.PathKey(v.T.Key(e.V.(string))))
		case "idx":
			out = append(out, jd.PathIndex(e.V.(int)))
		case "set":
			out = append(out, jd.PathSet{})
		case "mset":
			out = append(out, jd.PathMultiset{})
		case "setkeys", "msetkeys":
			m := map[string]jd.JsonNode{}
			for k, n := range e.V.(map[string]codec.Node) {
				m[v.T.Key(k)] = v.MustInject(n)
			}
			if e.K == "setkeys" {
				out = append(out, jd.PathSetKeys(m))
			} else {
				out = append(out, jd.PathMultisetKeys(m))
			}
		}
	}
	return out
}

func (v *V2) ProjectDiff(d jd.Diff) []codec.Hunk {
	out := make([]codec.Hunk, len(d))
	for i, e := range d {
		out[i] = codec.Hunk{
			Merge:  e.Metadata.Merge,
			Path:   v.ProjectPath(e.Path),
			Before: v.ProjectList(e.Before),
			Remove: v.ProjectList(e.Remove),
			Add:    v.ProjectList(e.Add),
			After:  v.ProjectList(e.After),
		}.Norm()
	}
	return out
}

func (v *V2) InjectDiff(hs []codec.Hunk) jd.Diff {
	out := make(jd.Diff, len(hs))
	for i, h := range hs {
		out[i] = jd.DiffElement{
			Metadata: jd.Metadata{Merge: h.Merge},
			Path:     v.InjectPath(h.Path),
			Before:   v.InjectList(h.Before),
			Remove:   v.InjectList(h.Remove),
			Add:      v.InjectList(h.Add),
			After:    v.InjectList(h.After),
		}
	}
	return out
}

// --- guarded calls ---------------------------------------------------------

func (v *V2) Diff(a, b codec.Node, o codec.Opts, yaml bool) (jd.Diff, Res) {
	var d jd.Diff
	r := Guard(func() Res {
		ja, err := v.Inject(a, yaml)
		if err != nil {
			return Res{St: "err", Msg: "inject a: " + err.Error()}
		}
		jb, err := v.InjectB(b, yaml)
		if err != nil {
			return Res{St: "err", Msg: "inject b: " + err.Error()}
		}
		d = ja.Diff(jb, v.Options(o)...)
		return Res{St: "ok", Diff: v.ProjectDiff(d)}
	})
	if r.St == "ok" && r.Diff == nil {
		r.Diff = []codec.Hunk{}
	}
	return d, r
}

// DiffPatchSame is the statement of C01 on one set of live values: the diff of ja and jb is applied to the
// very ja it was computed from (not to a fresh copy) and the result compared with the very jb.
func (v *V2) DiffPatchSame(a, b codec.Node, o codec.Opts, yaml bool) (Res, Res) {
	var eq Res
	r := Guard(func() Res {
		ja, err := v.Inject(a, yaml)
		if err != nil {
			return Res{St: "err", Msg: "inject a: " + err.Error()}
		}
		jb, err := v.InjectB(b, yaml)
		if err != nil {
			return Res{St: "err", Msg: "inject b: " + err.Error()}
		}
		opts := v.Options(o)
		d := ja.Diff(jb, opts...)
		p, err := ja.Patch(d)
		if err != nil {
			return Res{St: "err", Msg: err.Error()}
		}
		n := v.Project(p)
		e := p.Equals(jb, opts...)
		eq = Res{St: "ok", Bool: &e}
		return Res{St: "ok", Doc: &n}
	})
	if eq.St == "" {
		eq = Res{St: "err", Msg: "no patched document"}
	}
	return r, eq
}

// Patch applies d to a fresh copy of c.
func (v *V2) Patch(c codec.Node, d jd.Diff, yaml bool) (jd.JsonNode, Res) {
	var out jd.JsonNode
	r := Guard(func() Res {
		jc, err := v.Inject(c, yaml)
		if err != nil {
			return Res{St: "err", Msg: "inject: " + err.Error()}
		}
		p, err := jc.Patch(d)
		if err != nil {
			return Res{St: "err", Msg: err.Error()}
		}
		n := v.Project(p)
		out = p
		return Res{St: "ok", Doc: &n}
	})
	return out, r
}

func (v *V2) EqualsJ(x jd.JsonNode, b codec.Node, o codec.Opts, yaml bool) Res {
	return Guard(func() Res {
		jb, err := v.InjectB(b, yaml)
		if err != nil {
			return Res{St: "err", Msg: "inject: " + err.Error()}
		}
		e := x.Equals(jb, v.Options(o)...)
		return Res{St: "ok", Bool: &e}
	})
}

func (v *V2) Equals(a, b codec.Node, o codec.Opts, yaml bool) Res {
	return Guard(func() Res {
		ja, err := v.Inject(a, yaml)
		if err != nil {
			return Res{St: "err", Msg: "inject: " + err.Error()}
		}
		jb, err := v.InjectB(b, yaml)
		if err != nil {
			return Res{St: "err", Msg: "inject: " + err.Error()}
		}
		e := ja.Equals(jb, v.Options(o)...)
		return Res{St: "ok", Bool: &e}
	})
}

// ReadDiffAny, ReadPatchAny and ReadMergeAny read a text through the string entry point or, for one text in eight
// (by a hash of the text), through the file entry point of the same reader.
func viaFile(text string) (string, bool) {
	h := fnv.New32a()
	h.Write([]byte(text))
	if h.Sum32()/11%8 != 3 {
		return "", false
	}
	f, err := os.CreateTemp("", "jdv-text-*")
	if err != nil {
		return "", false
	}
	f.WriteString(text)
	f.Close()
	return f.Name(), true
}

func ReadDiffAny(text string) (jd.Diff, error) {
	if name, ok := viaFile(text); ok {
		defer os.Remove(name)
		return jd.ReadDiffFile(name)
	}
	return jd.ReadDiffString(text)
}

func ReadPatchAny(text string) (jd.Diff, error) {
	if name, ok := viaFile(text); ok {
		defer os.Remove(name)
		return jd.ReadPatchFile(name)
	}
	return jd.ReadPatchString(text)
}

func ReadMergeAny(text string) (jd.Diff, error) {
	if name, ok := viaFile(text); ok {
		defer os.Remove(name)
		return jd.ReadMergeFile(name)
	}
	return jd.ReadMergeString(text)
}
