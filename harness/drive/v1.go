package drive

import (
	"fmt"
	"hash/fnv"
	"os"

	jd1 "github.com/josephburnett/jd/lib"

	"jdv/codec"
)

// V1 drives the v1 library (package lib).
type V1 struct {
	T        *codec.Table
	void     jd1.JsonNode
	NegZeroB bool
}

func NewV1(t *codec.Table) *V1 {
	v, err := jd1.ReadJsonString("")
	if err != nil {
		panic(err)
	}
	return &V1{T: t, void: v}
}

func (v *V1) Inject(n codec.Node, yaml bool) (jd1.JsonNode, error) {
	if n.IsVoid() {
		return v.void, nil
	}
	if yaml {
		return jd1.ReadYamlString(v.T.Text(n))
	}
	// the same choice of entry points as for v2 (V2.enter)
	h := fnv.New32a()
	h.Write([]byte(v.T.Text(n)))
	switch h.Sum32() / 7 % 8 {
	case 6:
		if r, ok := v.T.Raw(n); ok {
			return jd1.NewJsonNode(goValue(r))
		}
	case 7:
		f, err := os.CreateTemp("", "jdv-doc1-*.json")
		if err == nil {
			defer os.Remove(f.Name())
			f.WriteString(v.T.Spell(n, false))
			f.Close()
			return jd1.ReadJsonFile(f.Name())
		}
	}
	return jd1.ReadJsonString(v.T.Spell(n, false))
}

// MustInjectB is MustInject for the b side of a pair (see V2.NegZeroB).
func (v *V1) MustInjectB(n codec.Node) jd1.JsonNode {
	if !v.NegZeroB || n.IsVoid() {
		return v.MustInject(n)
	}
	j, err := jd1.ReadJsonString(v.T.Spell(n, true))
	if err != nil {
		panic(fmt.Sprintf("codec: cannot inject %v: %v", v.T.TextNZ(n), err))
	}
	return j
}

func (v *V1) MustInject(n codec.Node) jd1.JsonNode {
	j, err := v.Inject(n, false)
	if err != nil {
		panic(fmt.Sprintf("codec: cannot inject %v: %v", v.T.Text(n), err))
	}
	return j
}

func (v *V1) Project(j jd1.JsonNode) codec.Node {
	if j == nil {
		return codec.Node{K: "x", V: "?nil"}
	}
	if TooDeep(j) {
		panic("jd (v1) produced a cyclic (or absurdly deep) document")
	}
	txt := j.Json()
	n, err := v.T.FromText(txt)
	if err != nil {
		return codec.Node{K: "x", V: "?unparsable:" + txt}
	}
	return n
}

func (v *V1) ProjectList(l []jd1.JsonNode) []codec.Node {
	out := make([]codec.Node, len(l))
	for i, e := range l {
		out[i] = v.Project(e)
	}
	return out
}

func (v *V1) Metadata(o codec.Opts) []jd1.Metadata {
	var out []jd1.Metadata
	if o.Set {
		out = append(out, jd1.SET)
	}
	if o.Mset {
		out = append(out, jd1.MULTISET)
	}
	if len(o.Keys) > 0 {
		ks := make([]string, len(o.Keys))
		for i, k := range o.Keys {
			ks[i] = v.T.Key(k)
		}
		out = append(out, jd1.Setkeys(ks...))
	}
	if o.Merge {
		out = append(out, jd1.MERGE)
	}
	if o.Eps != 0 {
		out = append(out, jd1.SetPrecision(float64(o.Eps)/8))
	}
	return out
}

// V1Hunk is a v1 diff element: the path keeps its in-path metadata as plain JSON nodes.
type V1Hunk struct {
	Path   []codec.Node `json:"path"`
	Remove []codec.Node `json:"remove"`
	Add    []codec.Node `json:"add"`
}

func (v *V1) ProjectDiff(d jd1.Diff) []V1Hunk {
	out := make([]V1Hunk, len(d))
	for i, e := range d {
		path := v.ProjectList(e.Path)
		for j := range path {
			if path[j].K == "s" { // a string path element names an object key
				if raw, ok := v.T.Strings[path[j].V.(string)]; ok {
					path[j].V = v.T.KeySym(raw)
				} else {
					path[j].V = v.T.KeySym(path[j].V.(string))
				}
			}
		}
		out[i] = V1Hunk{Path: path, Remove: v.ProjectList(e.OldValues), Add: v.ProjectList(e.NewValues)}
	}
	return out
}
