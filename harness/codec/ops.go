package codec

import (
	"bytes"
	"encoding/json"
	"regexp"
	"strconv"
	"strings"
)

// Token is one RFC 6901 reference token: S is the unescaped text (abstracted
// through the key table), I its reading as an array index: the number when S is
// a canonical index (0 | [1-9][0-9]*), -2 for "-", -1 otherwise.
type Token struct {
	S string `json:"s"`
	I int    `json:"i"`
}

// Op is one RFC 6902 operation as found in a patch document.
type Op struct {
	Op    string  `json:"op"`
	Path  []Token `json:"path"`
	Value Node    `json:"value"`
	From  []Token `json:"from"`
	Wf    bool    `json:"wf"`
}

var NoVal = Node{K: "N", V: 0}
var canonIndex = regexp.MustCompile(`^(0|[1-9][0-9]{0,8})$`)

// ParsePointer splits an RFC 6901 pointer into tokens.
func (t *Table) ParsePointer(s string) ([]Token, bool) {
	out := []Token{}
	if s == "" {
		return out, true
	}
	if !strings.HasPrefix(s, "/") {
		return out, false
	}
	for _, raw := range strings.Split(s[1:], "/") {
		var b strings.Builder
		for i := 0; i < len(raw); i++ {
			if raw[i] != '~' {
				b.WriteByte(raw[i])
				continue
			}
			if i+1 >= len(raw) {
				return out, false
			}
			switch raw[i+1] {
			case '0':
				b.WriteByte('~')
			case '1':
				b.WriteByte('/')
			default:
				return out, false
			}
			i++
		}
		tok := b.String()
		idx := -1
		if tok == "-" {
			idx = -2
		} else if canonIndex.MatchString(tok) {
			idx, _ = strconv.Atoi(tok)
		}
		out = append(out, Token{S: t.KeySym(tok), I: idx})
	}
	return out, true
}

// PointerText renders tokens as an RFC 6901 pointer.
func (t *Table) PointerText(p []Token) string {
	var b strings.Builder
	for _, tok := range p {
		b.WriteByte('/')
		var s string
		switch {
		case tok.I >= 0:
			s = strconv.Itoa(tok.I)
		case tok.I == -2:
			s = "-"
		default:
			s = t.Key(tok.S)
		}
		s = strings.ReplaceAll(s, "~", "~0")
		s = strings.ReplaceAll(s, "/", "~1")
		b.WriteString(s)
	}
	return b.String()
}

// ParseOps parses a JSON Patch document; ok is false when it is not a JSON array of objects.
func (t *Table) ParseOps(text string) ([]Op, bool) {
	var raw []map[string]json.RawMessage
	dec := json.NewDecoder(strings.NewReader(text))
	if err := dec.Decode(&raw); err != nil {
		return []Op{}, false
	}
	out := make([]Op, 0, len(raw))
	for _, m := range raw {
		if m == nil {
			return []Op{}, false
		}
		o := Op{Wf: true, Path: []Token{}, From: []Token{}, Value: NoVal}
		if r, ok := m["op"]; !ok || json.Unmarshal(r, &o.Op) != nil {
			o.Wf = false
		}
		var ps string
		if r, ok := m["path"]; !ok || json.Unmarshal(r, &ps) != nil {
			o.Wf = false
		} else if p, ok := t.ParsePointer(ps); ok {
			o.Path = p
		} else {
			o.Wf = false
		}
		if r, ok := m["from"]; ok {
			var fs string
			if json.Unmarshal(r, &fs) != nil {
				o.Wf = false
			} else if p, ok := t.ParsePointer(fs); ok {
				o.From = p
			} else {
				o.Wf = false
			}
		} else if o.Op == "move" || o.Op == "copy" {
			o.Wf = false
		}
		if r, ok := m["value"]; ok {
			n, err := t.FromText(string(r))
			if err != nil {
				o.Wf = false
			} else {
				o.Value = n
			}
		}
		out = append(out, o)
	}
	return out, true
}

// OpsText renders ops as a JSON Patch document.
func (t *Table) OpsText(ops []Op) string {
	var b bytes.Buffer
	b.WriteByte('[')
	for i, o := range ops {
		if i > 0 {
			b.WriteByte(',')
		}
		opb, _ := json.Marshal(o.Op)
		pb, _ := json.Marshal(t.PointerText(o.Path))
		b.WriteString(`{"op":`)
		b.Write(opb)
		b.WriteString(`,"path":`)
		b.Write(pb)
		if o.Op == "move" || o.Op == "copy" {
			fb, _ := json.Marshal(t.PointerText(o.From))
			b.WriteString(`,"from":`)
			b.Write(fb)
		}
		if o.Value.K != "N" && o.Value.K != "v" {
			b.WriteString(`,"value":`)
			b.WriteString(t.Text(o.Value))
		}
		b.WriteByte('}')
	}
	b.WriteByte(']')
	return b.String()
}

func (o *Op) UnmarshalJSON(data []byte) error {
	var raw struct {
		Op    string  `json:"op"`
		Path  []Token `json:"path"`
		Value Node    `json:"value"`
		From  []Token `json:"from"`
		Wf    bool    `json:"wf"`
	}
	if err := json.Unmarshal(data, &raw); err != nil {
		return err
	}
	o.Op, o.Path, o.Value, o.From, o.Wf = raw.Op, raw.Path, raw.Value, raw.From, raw.Wf
	if o.Path == nil {
		o.Path = []Token{}
	}
	if o.From == nil {
		o.From = []Token{}
	}
	return nil
}
