// Package codec maps the specification's uniform value encoding
// (DESIGN.md 3.2) to and from the public jd API.  It contains no jd
// semantics: documents are injected as JSON text and projected from
// Json() text; diffs are built from / read off the public DiffElement
// and Path fields.
package codec

import (
	"bytes"
	"encoding/json"
	"fmt"
	"hash/fnv"
	"math"
	"sort"
	"strconv"
	"strings"
)

// Node is a tag-first value: K is the kind, V the payload.
//
//	"n" int (units of 1/8)   "x" string (other number)   "s" string
//	"b" bool   "z" 0 (null)   "v" 0 (void)   "A" []Node   "O" map[string]Node
type Node struct {
	K string
	V any
}

func Void() Node            { return Node{"v", 0} }
func Null() Node            { return Node{"z", 0} }
func Num(i int) Node        { return Node{"n", i} }
func Str(s string) Node     { return Node{"s", s} }
func Arr(l ...Node) Node    { return Node{"A", append([]Node{}, l...)} }
func (n Node) IsVoid() bool { return n.K == "v" }

func (n Node) MarshalJSON() ([]byte, error) {
	var b bytes.Buffer
	b.WriteString(`{"k":`)
	kb, _ := json.Marshal(n.K)
	b.Write(kb)
	b.WriteString(`,"v":`)
	switch n.K {
	case "A":
		l, _ := n.V.([]Node)
		b.WriteByte('[')
		for i, e := range l {
			if i > 0 {
				b.WriteByte(',')
			}
			eb, err := e.MarshalJSON()
			if err != nil {
				return nil, err
			}
			b.Write(eb)
		}
		b.WriteByte(']')
	case "O":
		m, _ := n.V.(map[string]Node)
		keys := make([]string, 0, len(m))
		for k := range m {
			keys = append(keys, k)
		}
		sort.Strings(keys)
		b.WriteByte('{')
		for i, k := range keys {
			if i > 0 {
				b.WriteByte(',')
			}
			kb, _ := json.Marshal(k)
			b.Write(kb)
			b.WriteByte(':')
			eb, err := m[k].MarshalJSON()
			if err != nil {
				return nil, err
			}
			b.Write(eb)
		}
		b.WriteByte('}')
	default:
		vb, err := json.Marshal(n.V)
		if err != nil {
			return nil, err
		}
		b.Write(vb)
	}
	b.WriteByte('}')
	return b.Bytes(), nil
}

func (n *Node) UnmarshalJSON(data []byte) error {
	var raw struct {
		K string          `json:"k"`
		V json.RawMessage `json:"v"`
	}
	if err := json.Unmarshal(data, &raw); err != nil {
		return err
	}
	n.K = raw.K
	switch raw.K {
	case "A":
		var l []Node
		if err := json.Unmarshal(raw.V, &l); err != nil {
			return err
		}
		if l == nil {
			l = []Node{}
		}
		n.V = l
	case "O":
		m := map[string]Node{}
		t := bytes.TrimSpace(raw.V)
		if len(t) > 0 && t[0] == '[' { // TLC writes the empty function as []
			n.V = m
			return nil
		}
		if err := json.Unmarshal(raw.V, &m); err != nil {
			return err
		}
		n.V = m
	case "n", "z", "v", "I", "N":
		var i int
		if err := json.Unmarshal(raw.V, &i); err != nil {
			return err
		}
		n.V = i
	case "s", "x":
		var s string
		if err := json.Unmarshal(raw.V, &s); err != nil {
			return err
		}
		n.V = s
	case "b":
		var b bool
		if err := json.Unmarshal(raw.V, &b); err != nil {
			return err
		}
		n.V = b
	default:
		return fmt.Errorf("unknown node kind %q", raw.K)
	}
	return nil
}

// Table concretises symbolic atoms.  Strings and keys that are not in
// the table stand for themselves.
type Table struct {
	Name    string             `json:"name"`
	Strings map[string]string  `json:"strings"`
	Keys    map[string]string  `json:"keys"`
	Numbers map[string]float64 `json:"numbers"` // exotic model integers (as decimal strings) -> float
	rs, rk  map[string]string
	rn      map[float64]int
}

func (t *Table) Init() {
	t.rs, t.rk, t.rn = map[string]string{}, map[string]string{}, map[float64]int{}
	for k, v := range t.Strings {
		if o, dup := t.rs[v]; dup && o != k {
			panic("table " + t.Name + ": strings " + o + " and " + k + " have the same text")
		}
		t.rs[v] = k
	}
	for k, v := range t.Keys {
		if o, dup := t.rk[v]; dup && o != k {
			panic("table " + t.Name + ": keys " + o + " and " + k + " have the same text")
		}
		t.rk[v] = k
	}
	for k, v := range t.Numbers {
		i, _ := strconv.Atoi(k)
		t.rn[v] = i
	}
}

func PlainTable() *Table {
	t := &Table{Name: "plain", Strings: map[string]string{}, Keys: map[string]string{},
		Numbers: map[string]float64{"1000001": 2261634.5098039214}}
	t.Strings["sA"] = "AAAAAAAA"
	// keys whose text is a decimal numeral or "-" always have a symbolic name, so that a
	// pointer token can be abstracted the same way whether it names a key or an index
	t.Keys["n0"], t.Keys["n1"], t.Keys["n2"], t.Keys["dash"] = "0", "1", "12", "-"
	t.Init()
	return t
}

func (t *Table) Key(sym string) string {
	if c, ok := t.Keys[sym]; ok {
		return c
	}
	return sym
}
func (t *Table) KeySym(conc string) string {
	if s, ok := t.rk[conc]; ok {
		return s
	}
	return conc
}
func (t *Table) String(sym string) string {
	if c, ok := t.Strings[sym]; ok {
		return c
	}
	return sym
}
func (t *Table) StringSym(conc string) string {
	if s, ok := t.rs[conc]; ok {
		return s
	}
	return conc
}
func (t *Table) Float(i int) float64 {
	if f, ok := t.Numbers[strconv.Itoa(i)]; ok {
		return f
	}
	return float64(i) / 8
}

// Raw converts a node to the generic Go value encoding/json and yaml use.
// Void has no such value: ok is false.
func (t *Table) Raw(n Node) (any, bool) {
	switch n.K {
	case "n":
		return t.Float(n.V.(int)), true
	case "x":
		f, _ := strconv.ParseFloat(n.V.(string), 64)
		return f, true
	case "s":
		return t.String(n.V.(string)), true
	case "b":
		return n.V.(bool), true
	case "z":
		return nil, true
	case "A":
		l := n.V.([]Node)
		out := make([]any, len(l))
		for i, e := range l {
			r, ok := t.Raw(e)
			if !ok {
				return nil, false
			}
			out[i] = r
		}
		return out, true
	case "O":
		m := n.V.(map[string]Node)
		out := map[string]any{}
		for k, e := range m {
			r, ok := t.Raw(e)
			if !ok {
				return nil, false
			}
			out[t.Key(k)] = r
		}
		return out, true
	}
	return nil, false
}

// Text renders the node as JSON text ("" for void).
func (t *Table) Text(n Node) string {
	if n.IsVoid() {
		return ""
	}
	r, ok := t.Raw(n)
	if !ok {
		panic("void inside a document")
	}
	var b bytes.Buffer
	enc := json.NewEncoder(&b)
	enc.SetEscapeHTML(false)
	if err := enc.Encode(r); err != nil {
		panic(err)
	}
	return strings.TrimSuffix(b.String(), "\n")
}

// Spell returns another spelling of the JSON text of n - the same document to any JSON reader: indented, CRLF line
// ends, surrounding blanks with the members of objects in reverse key order, numbers in exponent form, strings and
// keys with every ASCII letter and digit as a \u escape.  The variant is a function of the text, so a replay sees
// the same spelling.  negz (see TextNZ) composes with it.
func (t *Table) Spell(n Node, negz bool) string {
	if n.IsVoid() {
		return ""
	}
	r, ok := t.Raw(n)
	if !ok {
		panic("void inside a document")
	}
	if negz {
		r = negZero(r)
	}
	plain := t.Text(n)
	if len(plain) > 2048 {
		if negz {
			return t.TextNZ(n)
		}
		return plain
	}
	h := fnv.New32a()
	h.Write([]byte(plain))
	return spellWith(r, int(h.Sum32()%6))
}

func spellWith(r any, variant int) string {
	var b strings.Builder
	spellValue(&b, r, variant)
	out := b.String()
	switch variant {
	case 1, 2:
		var ib bytes.Buffer
		if json.Indent(&ib, []byte(out), "", "\t") == nil {
			out = ib.String() + "\n"
		}
		if variant == 2 {
			out = strings.ReplaceAll(out, "\n", "\r\n")
		}
	case 3:
		out = " \n\t" + out + "\n \n"
	}
	return out
}

func spellValue(b *strings.Builder, r any, variant int) {
	switch v := r.(type) {
	case nil:
		b.WriteString("null")
	case bool:
		if v {
			b.WriteString("true")
		} else {
			b.WriteString("false")
		}
	case float64:
		if variant == 4 && !(v == 0 && math.Signbit(v)) {
			b.WriteString(strconv.FormatFloat(v, 'E', -1, 64))
		} else {
			x, _ := json.Marshal(v)
			b.Write(x)
		}
	case string:
		spellString(b, v, variant)
	case []any:
		b.WriteByte('[')
		for i, e := range v {
			if i > 0 {
				b.WriteByte(',')
			}
			spellValue(b, e, variant)
		}
		b.WriteByte(']')
	case map[string]any:
		keys := make([]string, 0, len(v))
		for k := range v {
			keys = append(keys, k)
		}
		sort.Strings(keys)
		if variant == 3 {
			for i, j := 0, len(keys)-1; i < j; i, j = i+1, j-1 {
				keys[i], keys[j] = keys[j], keys[i]
			}
		}
		b.WriteByte('{')
		for i, k := range keys {
			if i > 0 {
				b.WriteByte(',')
			}
			spellString(b, k, variant)
			b.WriteByte(':')
			spellValue(b, v[k], variant)
		}
		b.WriteByte('}')
	default:
		panic(fmt.Sprintf("spell: unexpected %T", r))
	}
}

func spellString(b *strings.Builder, s string, variant int) {
	if variant != 5 {
		var x bytes.Buffer
		enc := json.NewEncoder(&x)
		enc.SetEscapeHTML(false)
		enc.Encode(s)
		b.WriteString(strings.TrimSuffix(x.String(), "\n"))
		return
	}
	b.WriteByte('"')
	for _, c := range s {
		switch {
		case c < 0x80 && (c >= 'a' && c <= 'z' || c >= 'A' && c <= 'Z' || c >= '0' && c <= '9' || c < 0x20 || c == '"' || c == '\\' || c == '/'):
			fmt.Fprintf(b, "\\u%04x", c)
		case c > 0xFFFF:
			c -= 0x10000
			fmt.Fprintf(b, "\\u%04x\\u%04x", 0xD800+(c>>10), 0xDC00+(c&0x3FF))
		case c == 0xFFFD:
			// an invalid byte in the Go string: leave it to the standard encoder
			x, _ := json.Marshal(string(c))
			b.WriteString(strings.Trim(string(x), "\""))
		default:
			b.WriteRune(c)
		}
	}
	b.WriteByte('"')
}

// TextNZ is Text with every numeric zero written as -0: another spelling of the same number.
func (t *Table) TextNZ(n Node) string {
	if n.IsVoid() {
		return ""
	}
	r, ok := t.Raw(n)
	if !ok {
		panic("void inside a document")
	}
	var b bytes.Buffer
	enc := json.NewEncoder(&b)
	enc.SetEscapeHTML(false)
	if err := enc.Encode(negZero(r)); err != nil {
		panic(err)
	}
	return strings.TrimSuffix(b.String(), "\n")
}

func negZero(r any) any {
	switch v := r.(type) {
	case float64:
		if v == 0 {
			return math.Copysign(0, -1)
		}
	case []any:
		out := make([]any, len(v))
		for i, e := range v {
			out[i] = negZero(e)
		}
		return out
	case map[string]any:
		out := map[string]any{}
		for k, e := range v {
			out[k] = negZero(e)
		}
		return out
	}
	return r
}

// FromRaw abstracts a generic Go value (as produced by encoding/json with
// UseNumber or float64) back into a node.
func (t *Table) FromRaw(r any) Node {
	switch v := r.(type) {
	case nil:
		return Null()
	case bool:
		return Node{"b", v}
	case string:
		return Node{"s", t.StringSym(v)}
	case json.Number:
		f, err := v.Float64()
		if err != nil {
			return Node{"x", v.String()}
		}
		return t.fromFloat(f)
	case float64:
		return t.fromFloat(v)
	case int:
		return t.fromFloat(float64(v))
	case []any:
		l := make([]Node, len(v))
		for i, e := range v {
			l[i] = t.FromRaw(e)
		}
		return Node{"A", l}
	case map[string]any:
		m := map[string]Node{}
		for k, e := range v {
			m[t.KeySym(k)] = t.FromRaw(e)
		}
		return Node{"O", m}
	case map[any]any:
		m := map[string]Node{}
		for k, e := range v {
			m[t.KeySym(fmt.Sprint(k))] = t.FromRaw(e)
		}
		return Node{"O", m}
	}
	return Node{"x", fmt.Sprintf("?%T", r)}
}

func (t *Table) fromFloat(f float64) Node {
	if i, ok := t.rn[f]; ok {
		return Node{"n", i}
	}
	g := f * 8
	if g == math.Trunc(g) && math.Abs(g) < 1e12 {
		if _, remapped := t.Numbers[strconv.Itoa(int(g))]; !remapped { // keep the table injective: that code means another float here
			return Node{"n", int(g)}
		}
	}
	return Node{"x", strconv.FormatFloat(f, 'g', -1, 64)}
}

// FromText parses JSON text ("" or blank = void).
func (t *Table) FromText(s string) (Node, error) {
	if strings.Trim(s, " \t\r\n") == "" {
		return Void(), nil
	}
	dec := json.NewDecoder(strings.NewReader(s))
	dec.UseNumber()
	var r any
	if err := dec.Decode(&r); err != nil {
		return Node{}, err
	}
	return t.FromRaw(r), nil
}

// ParseStrict parses text that must be exactly one JSON value (like json.Unmarshal).
func (t *Table) ParseStrict(s string) (Node, bool) {
	if strings.Trim(s, " \t\r\n") == "" {
		return Void(), true
	}
	if !json.Valid([]byte(s)) {
		return Node{}, false
	}
	n, err := t.FromText(s)
	if err != nil {
		return Node{}, false
	}
	return n, true
}

// Line is one lexed line of a native jd diff text: header character and the
// JSON value of the rest (void when blank, invalid when it is not JSON).
type Line struct {
	H string `json:"h"`
	P Node   `json:"p"`
}

var InvalidNode = Node{K: "I", V: 0}

// Lex splits a diff text into lines (blank lines are skipped, as the reader does).
func (t *Table) Lex(text string) []Line {
	out := []Line{}
	for _, ln := range strings.Split(text, "\n") {
		if len(ln) == 0 {
			continue
		}
		p, ok := t.ParseStrict(ln[1:])
		if !ok {
			p = InvalidNode
		}
		out = append(out, Line{H: ln[:1], P: p})
	}
	return out
}

// Opts is the option record of the specification.
type Opts struct {
	Set   bool     `json:"set"`
	Mset  bool     `json:"mset"`
	Keys  []string `json:"keys"`
	Merge bool     `json:"merge"`
	Eps   int      `json:"eps"`
}

func (o Opts) MarshalJSON() ([]byte, error) {
	keys := o.Keys
	if keys == nil {
		keys = []string{}
	}
	return json.Marshal(struct {
		Set   bool     `json:"set"`
		Mset  bool     `json:"mset"`
		Keys  []string `json:"keys"`
		Merge bool     `json:"merge"`
		Eps   int      `json:"eps"`
	}{o.Set, o.Mset, keys, o.Merge, o.Eps})
}

func (o Opts) Tag() string {
	var p []string
	if o.Set {
		p = append(p, "SET")
	}
	if o.Mset {
		p = append(p, "MULTISET")
	}
	if len(o.Keys) > 0 {
		p = append(p, "SetKeys("+strings.Join(o.Keys, ",")+")")
	}
	if o.Merge {
		p = append(p, "MERGE")
	}
	if o.Eps != 0 {
		p = append(p, fmt.Sprintf("Precision(%d/8)", o.Eps))
	}
	if len(p) == 0 {
		return "none"
	}
	return strings.Join(p, "+")
}

// PathElem / Hunk / Op mirror the specification's records.
type PathElem struct {
	K string `json:"k"`
	V any    `json:"v"` // string | int | 0 | map[string]Node
}

func (p *PathElem) UnmarshalJSON(data []byte) error {
	var raw struct {
		K string          `json:"k"`
		V json.RawMessage `json:"v"`
	}
	if err := json.Unmarshal(data, &raw); err != nil {
		return err
	}
	p.K = raw.K
	switch raw.K {
	case "key":
		var s string
		if err := json.Unmarshal(raw.V, &s); err != nil {
			return err
		}
		p.V = s
	case "idx", "set", "mset":
		var i int
		if err := json.Unmarshal(raw.V, &i); err != nil {
			return err
		}
		p.V = i
	case "setkeys", "msetkeys":
		m := map[string]Node{}
		t := bytes.TrimSpace(raw.V)
		if !(len(t) > 0 && t[0] == '[') {
			if err := json.Unmarshal(raw.V, &m); err != nil {
				return err
			}
		}
		p.V = m
	default:
		return fmt.Errorf("unknown path element kind %q", raw.K)
	}
	return nil
}

type Hunk struct {
	Merge  bool       `json:"merge"`
	Path   []PathElem `json:"path"`
	Before []Node     `json:"before"`
	Remove []Node     `json:"remove"`
	Add    []Node     `json:"add"`
	After  []Node     `json:"after"`
}

func nn(l []Node) []Node {
	if l == nil {
		return []Node{}
	}
	return l
}

// Norm makes nil slices empty so that they serialise as [].
func (h Hunk) Norm() Hunk {
	if h.Path == nil {
		h.Path = []PathElem{}
	}
	h.Before, h.Remove, h.Add, h.After = nn(h.Before), nn(h.Remove), nn(h.Add), nn(h.After)
	return h
}
