package codec

import (
	"encoding/json"
	"reflect"
	"testing"
)

// every spelling of a document decodes to the same value as the plain text
func TestSpellings(t *testing.T) {
	tb := PlainTable()
	docs := []string{`{"k0":[1,2.5,{"k1":"s0 \"q\" \\ / é☃𝄞\u0001\n","":null}],"k1":true}`, `[0,1e21,5e-324,-1.5,"",[],{}]`, `"x"`, `12`,
		`{"a":{"b":{"c":[[],[[]],{}]}}}`}
	for _, d := range docs {
		n, err := tb.FromText(d)
		if err != nil {
			t.Fatal(err)
		}
		r, _ := tb.Raw(n)
		var want any
		if err := json.Unmarshal([]byte(tb.Text(n)), &want); err != nil {
			t.Fatal(err)
		}
		for v := 0; v < 6; v++ {
			s := spellWith(r, v)
			var got any
			if err := json.Unmarshal([]byte(s), &got); err != nil {
				t.Fatalf("variant %d of %s: %q: %v", v, d, s, err)
			}
			if !reflect.DeepEqual(got, want) {
				t.Fatalf("variant %d of %s: %q decodes differently", v, d, s)
			}
		}
	}
}
