------------------------------ MODULE ListDiff ------------------------------
(***************************************************************************)
(* The list differ of v2/list.go (diff, diffRest) as a state machine: a    *)
(* walk over a and b along a longest common subsequence, with cursors      *)
(*    i, j  next elements of a, b (aCursor, bCursor)                        *)
(*    pc    index in the RESULT at which the next edit lands (pathCursor)   *)
(*    cs    the remaining common subsequence (chosen among ALL longest      *)
(*          common subsequences in Init: the code takes whatever golcs      *)
(*          returns, the property must hold for every choice)               *)
(*    open  the hunk being accumulated since the last common element        *)
(*    prev  the element before the cursor in the result                     *)
(*    out   the hunks emitted so far                                        *)
(* One action per branch of the switch in diffRest.                         *)
(***************************************************************************)
EXTENDS Diff, Universe
FieldOrder == [k |-> 0, v |-> 0]   \* must stay the first definition of a root module (JsonValue.tla)

CONSTANT MaxLen          \* arrays up to this length

VARIABLES a0, b0, cs, i, j, pc, open, prev, out, phase
lvars == <<a0, b0, cs, i, j, pc, open, prev, out, phase, doc, rest, status>>

Elems == {N1, N2, Arr(<<N1>>), Arr(<<N2>>), O1("k0", N1)}
Arrays == TuplesUpTo(Elems, MaxLen)

NewOpen(idx, si, sj) == [idx |-> idx, si |-> si, sj |-> sj, rm |-> <<>>, ad |-> <<>>]
Have == open.rm # <<>> \/ open.ad # <<>>

Init ==
  /\ a0 \in Arrays /\ b0 \in Arrays
  /\ cs \in AllLcs(a0, b0)
  /\ i = 1 /\ j = 1 /\ pc = 0 /\ open = NewOpen(0, 1, 1) /\ prev = Void /\ out = <<>> /\ phase = "walk"
  /\ doc = Void /\ rest = <<>> /\ status = "idle"          \* the patch machine's variables are not used here

EndOfA == i > Len(a0)
EndOfB == j > Len(b0)
AtA == ~EndOfA /\ cs # <<>> /\ a0[i] = Head(cs)
AtB == ~EndOfB /\ cs # <<>> /\ b0[j] = Head(cs)

Emit(after) == IF Have THEN Append(out, Hunk(FALSE, <<PIdx(open.idx)>>, <<prev>>, open.rm, open.ad, after)) ELSE out
Fixed == UNCHANGED <<a0, b0, doc, rest, status>>

EndA ==        \* the rest of b is added
  /\ phase = "walk" /\ EndOfA /\ Fixed
  /\ out' = (IF open.rm # <<>> \/ open.ad \o SubSeq(b0, j, Len(b0)) # <<>>
             THEN Append(out, Hunk(FALSE, <<PIdx(open.idx)>>, <<prev>>, open.rm, open.ad \o SubSeq(b0, j, Len(b0)), <<Void>>)) ELSE out)
  /\ j' = Len(b0) + 1 /\ phase' = "done" /\ UNCHANGED <<cs, i, pc, open, prev>>
EndB ==        \* the rest of a is removed
  /\ phase = "walk" /\ ~EndOfA /\ EndOfB /\ Fixed
  /\ out' = Append(out, Hunk(FALSE, <<PIdx(open.idx)>>, <<prev>>, open.rm \o SubSeq(a0, i, Len(a0)), open.ad, <<Void>>))
  /\ i' = Len(a0) + 1 /\ phase' = "done" /\ UNCHANGED <<cs, j, pc, open, prev>>
Common ==      \* both cursors at the next common element: close the hunk, move past it
  /\ phase = "walk" /\ AtA /\ AtB /\ Fixed
  /\ out' = Emit(<<a0[i]>>)
  /\ i' = i + 1 /\ j' = j + 1 /\ cs' = Tail(cs) /\ pc' = pc + 1
  /\ open' = NewOpen(pc + 1, i + 1, j + 1) /\ prev' = b0[j] /\ UNCHANGED phase
CatchUpB ==    \* a is at the common element, b is not: add from b
  /\ phase = "walk" /\ ~EndOfA /\ ~EndOfB /\ AtA /\ ~AtB /\ Fixed
  /\ open' = [open EXCEPT !.ad = Append(@, b0[j])] /\ j' = j + 1 /\ pc' = pc + 1
  /\ UNCHANGED <<cs, i, prev, out, phase>>
CatchUpA ==    \* b is at the common element, a is not: remove from a
  /\ phase = "walk" /\ ~EndOfA /\ ~EndOfB /\ ~AtA /\ AtB /\ Fixed
  /\ open' = [open EXCEPT !.rm = Append(@, a0[i])] /\ i' = i + 1
  /\ UNCHANGED <<cs, j, pc, prev, out, phase>>
Recurse ==     \* compatible containers: keep what was accumulated, then the sub-diff
  /\ phase = "walk" /\ ~EndOfA /\ ~EndOfB /\ ~AtA /\ ~AtB /\ SameContainerKind(a0[i], b0[j]) /\ Fixed
  /\ out' = Emit(<<a0[i]>>) \o RefDiffAt(a0[i], b0[j], <<PIdx(pc)>>, NoOpt)
  /\ i' = i + 1 /\ j' = j + 1 /\ pc' = pc + 1
  /\ open' = NewOpen(pc + 1, i + 1, j + 1) /\ prev' = b0[j] /\ UNCHANGED <<cs, phase>>
ReplacePair == \* different elements: remove one, add one
  /\ phase = "walk" /\ ~EndOfA /\ ~EndOfB /\ ~AtA /\ ~AtB /\ ~SameContainerKind(a0[i], b0[j]) /\ Fixed
  /\ open' = [open EXCEPT !.rm = Append(@, a0[i]), !.ad = Append(@, b0[j])]
  /\ i' = i + 1 /\ j' = j + 1 /\ pc' = pc + 1 /\ UNCHANGED <<cs, prev, out, phase>>

Next == EndA \/ EndB \/ Common \/ CatchUpB \/ CatchUpA \/ Recurse \/ ReplacePair
Spec == Init /\ [][Next]_lvars

(* ---- properties ------------------------------------------------------------------ *)
A == Arr(a0)
B == Arr(b0)

(* the anchor of C01: after the hunks emitted so far, the result is b up to the open hunk  *)
(* followed by the rest of a - the index of every hunk is valid after all earlier hunks    *)
IndexBookkeeping ==
  phase = "walk" =>
    LET r == ApplyAll(A, out) IN
    /\ ~Bad(r)
    /\ open.idx = open.sj - 1
    /\ r.v = SubSeq(b0, 1, open.sj - 1) \o SubSeq(a0, open.si, Len(a0))
    /\ prev = (IF open.sj = 1 THEN Void ELSE b0[open.sj - 1])

AtEnd ==
  phase = "done" =>
    /\ RoundTrips(A, B, NoOpt, out)                 \* C01
    /\ EmptyIffEqual(A, B, NoOpt, out)              \* C05
    /\ HasContext(out) /\ Recurses(out) /\ Minimal(A, B, out) /\ IndicesIncrease(out)     \* C06
    /\ MentionsOnlyDifferences(A, B, NoOpt, out) /\ NoRedundantHunk(A, B, NoOpt, out) /\ NoSharedPartReplaced(out)      \* C07
Terminates == <>(phase = "done")
=============================================================================
