------------------------------ MODULE TraceV1 ------------------------------
(***************************************************************************)
(* C17 / C18: the v1 library.                                              *)
(*   V1Begin(a,b,opts) Diff1(diff) PatchStep(k,res)* Equals EqualsAB       *)
(*   TextTrip(read, res, eq)  RenderPatch(st,ops) PatchTrip(read,res,eq)   *)
(*   RenderMerge(st,p) MergeTrip(read,res,eq) End                          *)
(***************************************************************************)
EXTENDS V1, TraceCore
FieldOrder == [k |-> 0, v |-> 0]   \* must stay the first definition of a root module (JsonValue.tla)

CONSTANT Props, KnownDevs
VARIABLE ctx
vars == <<shard, l, doc, rest, status, ctx>>
Judge(p) == p \in Props
NoCtx == [a |-> Void, b |-> Void, o |-> NoOpt, d |-> <<>>, n |-> 0]
Init == CoreInit /\ doc = Void /\ rest = <<>> /\ status = "idle" /\ ctx = NoCtx
ListMode(o) == Reading(o) = "list" /\ ~o.merge

TBegin ==
  /\ IsEvent("V1Begin") /\ Consume
  /\ ctx' = [NoCtx EXCEPT !.a = Rec.a, !.b = Rec.b, !.o = Rec.opts]
  /\ doc' = Rec.a /\ rest' = <<>> /\ status' = "idle"

TDiff ==
  /\ IsEvent("Diff1") /\ Consume /\ UNCHANGED doc
  /\ rest' = Rec.diff /\ status' = IF Rec.diff = <<>> THEN "ok" ELSE "run"
  /\ ctx' = [ctx EXCEPT !.d = Rec.diff, !.n = Len(Rec.diff)]
  /\ Judge("C17") => Check(Rec.st = "ok", "C17", "diff-call")

(* the listed deviation "setkeys-identity-ignores-key-names" (Patch.tla) is shared by v1: lib/object.go ident sorts the   *)
(* key-value hashes in the same way.  A failing clause of a session of that input class is reported as the finding.      *)
IdentKnown ==
  /\ "setkeys-identity-ignores-key-names" \in KnownDevs /\ Len(ctx.o.keys) >= 2
  /\ HasIdentCollision2(ctx.a, ctx.b, ctx.o.keys)
CheckK(c, prop, clause) ==
  IF c THEN TRUE
  ELSE IF IdentKnown THEN PrintT(<<"JDV-KNOWN", Rec.sess, prop, "setkeys-identity-ignores-key-names", clause>>)
  ELSE FailLine(prop, clause)

(* the v1 patch machine: one hunk per step, validated against the real intermediate document *)
TStep ==
  /\ IsEvent("PatchStep") /\ Consume /\ UNCHANGED ctx
  /\ (Judge("C17") /\ Rec.k = ctx.n) => CheckK(Rec.res.st = "ok", "C17", "patch")
  /\ IF status = "run" THEN
        LET r == ApplyV1(doc, Head(rest)) IN
        IF Rec.res.st = "ok" /\ ~Bad(r) /\ EqR(r, Rec.res.doc, Reading(ctx.o)) THEN
             doc' = r /\ rest' = Tail(rest) /\ status' = IF Tail(rest) = <<>> THEN "ok" ELSE "run"
        ELSE IF Rec.res.st = "err" /\ IsErr(r) THEN status' = "err" /\ UNCHANGED <<doc, rest>>
        ELSE IF IsAmb(r) THEN status' = "amb" /\ UNCHANGED <<doc, rest>>
        ELSE /\ status' = "skip" /\ UNCHANGED <<doc, rest>>
             /\ Judge("C17") => NoteLine("C17", <<"bind", Rec.k, Rec.res.st>>)
     ELSE UNCHANGED <<doc, rest, status>>

Keep == UNCHANGED <<doc, rest, status>>

TEquals ==
  /\ IsEvent("Equals") /\ Consume /\ Keep /\ UNCHANGED ctx
  /\ Judge("C17") => CheckK(Rec.res.st = "ok" /\ Rec.res.bool, "C17", "equals")
TEqualsAB ==
  /\ IsEvent("EqualsAB") /\ Consume /\ Keep /\ UNCHANGED ctx
  /\ Judge("C17") =>
       IF Rec.res.st = "ok" /\ ((ctx.d = <<>>) <=> Rec.res.bool) THEN TRUE
       ELSE IF "v1-diff-ignores-precision" \in KnownDevs /\ ctx.o.eps > 0 /\ Rec.res.st = "ok" /\ Rec.res.bool /\ ctx.d # <<>>
                /\ ~Eq(ctx.a, ctx.b, [ctx.o EXCEPT !.eps = 0])
            THEN PrintT(<<"JDV-KNOWN", Rec.sess, "C17", "v1-diff-ignores-precision">>)
       ELSE CheckK(FALSE, "C17", "empty-iff-equal")

TRediff ==
  /\ IsEvent("Rediff") /\ Consume /\ Keep /\ UNCHANGED ctx
  /\ Judge("C17") => CheckK(Rec.st = "ok" /\ ((Rec.n1 = 0) <=> Rec.eq) /\ ((Rec.n2 = 0) <=> Rec.eq), "C17", "patched-document-rediff")

TSame ==
  /\ IsEvent("Same") /\ Consume /\ Keep /\ UNCHANGED ctx
  /\ Judge("C17") => CheckK(Rec.res.st = "ok" /\ Rec.eq, "C17", "same-values")

Trip(prop, name) ==
  /\ Check(Rec.read = "ok", prop, <<name, "read">>)
  /\ Rec.read = "ok" => CheckK(Rec.res.st = "ok" /\ Rec.eq, prop, <<name, "patch-or-equals">>)

TTextTrip  == IsEvent("TextTrip") /\ Consume /\ Keep /\ UNCHANGED ctx /\ (Judge("C17") => Trip("C17", "render-read"))

TRenderPatch ==
  /\ IsEvent("RenderPatch") /\ Consume /\ Keep /\ UNCHANGED ctx
  /\ (Judge("C18") /\ ListMode(ctx.o)) =>
       IF Rec.st = "ok" THEN
          /\ Check(Rec.parsed /\ \A i \in DOMAIN Rec.ops : OpWellFormed(Rec.ops[i]), "C18", "malformed-patch")
          /\ LET r == Eval(Rec.ops, ctx.a) IN Check(~IsErr(r) /\ r = ctx.b, "C18", "rfc6902-on-a")
       ELSE TRUE       \* v1 refuses what it cannot express
TPatchTrip == IsEvent("PatchTrip") /\ Consume /\ Keep /\ UNCHANGED ctx /\ ((Judge("C18") /\ ListMode(ctx.o)) => Trip("C18", "patch-read-back"))

TRenderMerge ==
  /\ IsEvent("RenderMerge") /\ Consume /\ Keep /\ UNCHANGED ctx
  /\ (Judge("C18") /\ ctx.o.merge /\ ~Eq(ctx.a, ctx.b, ctx.o)) =>
       /\ Check(Rec.st = "ok" /\ Rec.p.k # "I", "C18", "rendermerge-call")
       /\ (Rec.st = "ok" /\ Rec.p.k # "I") => Check(Eq(MergePatch(ctx.a, Rec.p), ctx.b, ctx.o), "C18", "rfc7386-on-a")
(* the listed deviation "merge-empty-object-replaces" of the merge readers (C12) is shared by v1: the patch {} leaves a     *)
(* non-object target unchanged, so the rendering of "a non-object became {}" does not read back                            *)
EmptyObjKnown ==
  /\ "merge-empty-object-replaces" \in KnownDevs /\ Rec.raw = "{}" /\ ctx.b = EmptyObj /\ ~IsObj(ctx.a)
  /\ Rec.read = "ok" /\ Rec.res.st = "ok" /\ Rec.res.doc = ctx.a
TMergeTrip == IsEvent("MergeTrip") /\ Consume /\ Keep /\ UNCHANGED ctx
              /\ ((Judge("C18") /\ ctx.o.merge /\ ~Eq(ctx.a, ctx.b, ctx.o)) =>
                     IF Rec.read = "ok" /\ Rec.res.st = "ok" /\ Rec.eq THEN TRUE
                     ELSE IF EmptyObjKnown THEN PrintT(<<"JDV-KNOWN", Rec.sess, "C18", "merge-empty-object-replaces">>)
                     ELSE Trip("C18", "merge-read-back"))

TEnd == IsEvent("End") /\ Consume /\ doc' = Void /\ rest' = <<>> /\ status' = "idle" /\ ctx' = NoCtx

Next == TBegin \/ TDiff \/ TStep \/ TEquals \/ TEqualsAB \/ TSame \/ TRediff \/ TTextTrip \/ TRenderPatch \/ TPatchTrip \/ TRenderMerge \/ TMergeTrip
        \/ TEnd \/ (Done /\ UNCHANGED <<doc, rest, status, ctx>>)
Spec == Init /\ [][Next]_vars
=============================================================================
