-------------------------------- MODULE Diff --------------------------------
(***************************************************************************)
(* A reference differ RefDiff(a, b, o): what jd's Diff computes, written   *)
(* as a function (objects key by key, lists by a walk along a longest      *)
(* common subsequence that mirrors diffRest in v2/list.go, sets, bags,     *)
(* keyed members, merge mode).  It is used                                 *)
(*   - at design level: TLC checks that RefDiff satisfies the relations of *)
(*     DiffRel.tla (round trip, empty-iff-equal, minimality, context, real *)
(*     differences, no redundant hunk) on the exhaustive families, so the  *)
(*     relations are satisfiable and mutually consistent;                  *)
(*   - as a generator of diffs for the models of the RFC translations.     *)
(* The real diffs are never compared with RefDiff (DESIGN.md 3.5).         *)
(***************************************************************************)
EXTENDS DiffRel

(* a total order on key strings for deterministic traversal (TLC cannot order strings) *)
KeyRank(s) ==
  CASE s = "k0" -> 0 [] s = "k1" -> 1 [] s = "k2" -> 2 [] s = "id" -> 3 [] s = "v" -> 4 [] s = "kz" -> 5
    [] s = "e0" -> 6 [] s = "e1" -> 7 [] s = "em" -> 8 [] s = "n1" -> 9 [] s = "dash" -> 10 [] s = "w0" -> 11
    [] s = "f0" -> 15 [] s = "f1" -> 16 [] s = "from" -> 12 [] s = "to" -> 13 [] s = "w" -> 14 [] OTHER -> 99
SortedKeys(S) == SortSeq(SetToSeq(S), LAMBDA x, y : KeyRank(x) < KeyRank(y))

(* ---- one longest common subsequence (leftmost), and all of them ----------------- *)
LcsTab(a, b) ==
  LET L[i \in 0..Len(a), j \in 0..Len(b)] ==
        IF i = 0 \/ j = 0 THEN 0
        ELSE IF a[i] = b[j] THEN L[i - 1, j - 1] + 1
        ELSE Max2(L[i - 1, j], L[i, j - 1])
  IN L

RECURSIVE AllLcsFrom(_, _, _, _, _)
AllLcsFrom(a, b, L, i, j) ==        \* set of LCSs of a[1..i], b[1..j]
  IF i = 0 \/ j = 0 THEN {<<>>}
  ELSE IF a[i] = b[j] THEN {Append(s, a[i]) : s \in AllLcsFrom(a, b, L, i - 1, j - 1)}
  ELSE (IF L[i - 1, j] = L[i, j] THEN AllLcsFrom(a, b, L, i - 1, j) ELSE {})
       \cup (IF L[i, j - 1] = L[i, j] THEN AllLcsFrom(a, b, L, i, j - 1) ELSE {})
AllLcs(a, b) == AllLcsFrom(a, b, LcsTab(a, b), Len(a), Len(b))
OneLcs(a, b) == CHOOSE s \in AllLcs(a, b) : TRUE

(* ---- the list walk: one segment accumulates at most one hunk ---------------------- *)
(* Acc: runs the inner loop of diffRest from cursors (i, j) (1-based next elements)    *)
(* returns [i, j, cs, pc, rm, ad, kind] with kind in end | common | recurse            *)
RECURSIVE Acc(_, _, _, _, _, _, _, _)
Acc(a, b, cs, i, j, pc, rm, ad) ==
  LET endA == i > Len(a)  endB == j > Len(b)
      atA == ~endA /\ cs # <<>> /\ a[i] = Head(cs)
      atB == ~endB /\ cs # <<>> /\ b[j] = Head(cs)
  IN
  IF endA THEN [i |-> i, j |-> Len(b) + 1, cs |-> cs, pc |-> pc, rm |-> rm, ad |-> ad \o SubSeq(b, j, Len(b)), kind |-> "end"]
  ELSE IF endB THEN [i |-> Len(a) + 1, j |-> j, cs |-> cs, pc |-> pc, rm |-> rm \o SubSeq(a, i, Len(a)), ad |-> ad, kind |-> "end"]
  ELSE IF atA /\ atB THEN [i |-> i + 1, j |-> j + 1, cs |-> Tail(cs), pc |-> pc + 1, rm |-> rm, ad |-> ad, kind |-> "common"]
  ELSE IF atA THEN Acc(a, b, cs, i, j + 1, pc + 1, rm, Append(ad, b[j]))
  ELSE IF atB THEN Acc(a, b, cs, i + 1, j, pc, Append(rm, a[i]), ad)
  ELSE IF SameContainerKind(a[i], b[j]) THEN [i |-> i, j |-> j, cs |-> cs, pc |-> pc, rm |-> rm, ad |-> ad, kind |-> "recurse"]
  ELSE Acc(a, b, cs, i + 1, j + 1, pc + 1, Append(rm, a[i]), Append(ad, b[j]))

RECURSIVE RefDiffAt(_, _, _, _)
RECURSIVE ListSegs(_, _, _, _, _, _, _, _)
(* a, b: the whole arrays; i, j: next elements; cs: remaining common subsequence; pc: result-relative index; *)
(* prev: the element before the cursor in the result (Void at the start); P: path of the array               *)
ListSegs(a, b, cs, i, j, pc, prev, PO) ==
  IF i > Len(a) /\ j > Len(b) THEN <<>>
  ELSE
    LET r == Acc(a, b, cs, i, j, pc, <<>>, <<>>)
        have == r.rm # <<>> \/ r.ad # <<>>
        after == IF r.kind = "end" THEN <<Void>> ELSE IF r.kind = "common" THEN <<a[r.i - 1]>> ELSE <<a[r.i]>>
        hunk == IF have THEN <<Hunk(FALSE, Append(PO.p, PIdx(pc)), <<prev>>, r.rm, r.ad, after)>> ELSE <<>>
    IN
    IF r.kind = "recurse" THEN
         hunk \o RefDiffAt(a[r.i], b[r.j], Append(PO.p, PIdx(r.pc)), PO.o)
              \o ListSegs(a, b, r.cs, r.i + 1, r.j + 1, r.pc + 1, b[r.j], PO)
    ELSE IF r.kind = "common" THEN
         hunk \o ListSegs(a, b, r.cs, r.i, r.j, r.pc, b[r.j - 1], PO)
    ELSE hunk

ListDiffWith(a, b, cs, P, o) == ListSegs(a, b, cs, 1, 1, 0, Void, [p |-> P, o |-> o])

(* ---- sets, bags, keyed members --------------------------------------------------- *)
DedupSeq(s, rd) == DedupBy(s, {}, rd)
SetDiffAt(a, b, P, o) ==
  LET keys == o.keys
      C(x) == Canon(x, "set")
      IdOf(m) == IF IsObj(m) /\ Len(keys) > 0 THEN [kk \in SeqRange(keys) |-> IF HasKey(m, kk) THEN C(m.v[kk]) ELSE Null] ELSE C(m)
      da == DedupSeq(a.v, "set")   db == DedupSeq(b.v, "set")
      idsA == {IdOf(da[i]) : i \in DOMAIN da}   idsB == {IdOf(db[i]) : i \in DOMAIN db}
      rm == SelectSeq(da, LAMBDA m : IdOf(m) \notin idsB)
      ad == SelectSeq(db, LAMBDA m : IdOf(m) \notin idsA)
      RECURSIVE Sub(_)
      Sub(k) == IF k > Len(da) THEN <<>>
                ELSE LET m == da[k] IN
                     (IF IsObj(m) /\ IdOf(m) \in idsB
                      THEN LET m2 == db[CHOOSE q \in DOMAIN db : IdOf(db[q]) = IdOf(m)]
                               keyobj == [kk \in SeqRange(keys) |-> IF HasKey(m, kk) THEN m.v[kk] ELSE Null]
                           IN IF IsObj(m2) /\ Len(keys) > 0 THEN RefDiffAt(m, m2, Append(P, PSetKeys(keyobj)), o) ELSE <<>>
                      ELSE <<>>) \o Sub(k + 1)
  IN Sub(1) \o (IF rm # <<>> \/ ad # <<>> THEN <<Hunk(FALSE, Append(P, PSet), <<>>, rm, ad, <<>>)>> ELSE <<>>)

RECURSIVE Times(_, _)
Times(x, n) == IF n <= 0 THEN <<>> ELSE <<x>> \o Times(x, n - 1)
BagDiffAt(a, b, P) ==
  LET C(x) == Canon(x, "mset")
      ua == DedupSeq(a.v, "mset")   ub == DedupSeq(b.v, "mset")
      RECURSIVE Rm(_)
      Rm(k) == IF k > Len(ua) THEN <<>> ELSE Times(ua[k], Count(C(ua[k]), a.v, "mset") - Count(C(ua[k]), b.v, "mset")) \o Rm(k + 1)
      RECURSIVE Ad(_)
      Ad(k) == IF k > Len(ub) THEN <<>> ELSE Times(ub[k], Count(C(ub[k]), b.v, "mset") - Count(C(ub[k]), a.v, "mset")) \o Ad(k + 1)
  IN IF Rm(1) # <<>> \/ Ad(1) # <<>> THEN <<Hunk(FALSE, Append(P, PMset), <<>>, Rm(1), Ad(1), <<>>)>> ELSE <<>>

(* ---- the whole thing ---------------------------------------------------------------- *)
MergeHunkAt(P, x) == <<Hunk(TRUE, P, <<>>, <<>>, <<x>>, <<>>)>>
ValueHunkAt(P, x, y, o) ==
  IF o.merge THEN MergeHunkAt(P, y)
  ELSE <<Hunk(FALSE, P, <<>>, NonVoidSeq(<<x>>), NonVoidSeq(<<y>>), <<>>)>>

RefDiffAt(a, b, P, o) ==
  IF IsObj(a) /\ IsObj(b) THEN
       LET ka == SortedKeys(Keys(a))   kb == SortedKeys(Keys(b))
           RECURSIVE FromA(_)
           FromA(k) == IF k > Len(ka) THEN <<>>
                       ELSE (IF HasKey(b, ka[k]) THEN RefDiffAt(a.v[ka[k]], b.v[ka[k]], Append(P, PKey(ka[k])), o)
                             ELSE ValueHunkAt(Append(P, PKey(ka[k])), a.v[ka[k]], Void, o)) \o FromA(k + 1)
           RECURSIVE FromB(_)
           FromB(k) == IF k > Len(kb) THEN <<>>
                       ELSE (IF HasKey(a, kb[k]) THEN <<>> ELSE ValueHunkAt(Append(P, PKey(kb[k])), Void, b.v[kb[k]], o)) \o FromB(k + 1)
       IN FromA(1) \o FromB(1)
  ELSE IF IsArr(a) /\ IsArr(b) THEN
       IF o.merge THEN (IF Eq(a, b, o) THEN <<>> ELSE MergeHunkAt(P, b))
       ELSE IF Reading(o) = "set" THEN SetDiffAt(a, b, P, o)
       ELSE IF Reading(o) = "mset" THEN BagDiffAt(a, b, P)
       ELSE ListDiffWith(a.v, b.v, OneLcs(a.v, b.v), P, o)
  ELSE IF (IsContainer(a) \/ IsContainer(b)) THEN ValueHunkAt(P, a, b, o)      \* different kinds
  ELSE IF a = b THEN <<>> ELSE ValueHunkAt(P, a, b, o)

RefDiff(a, b, o) == RefDiffAt(a, b, <<>>, o)
=============================================================================
