------------------------------ MODULE MCPatch ------------------------------
(***************************************************************************)
(* Design-level model: the hunk application machine (Patch.tla) driven by  *)
(* the reference differ (Diff.tla) over exhaustive small families.         *)
(* TLC checks, for every (a, b, options) of the family and every target:   *)
(*   C01  applying RefDiff(a,b,o) to a ends in "ok" with a document Eq b   *)
(*   C05  the diff is empty iff Eq(a,b,o)                                  *)
(*   C06  minimality vs LCS, one before / after line, recursion (list)     *)
(*   C07  every hunk is a real difference; no hunk is redundant            *)
(*   C03  an error is terminal, a step changes only the addressed          *)
(*        container (frame), the machine is total (ok / err / amb)         *)
(*   C08  set / bag hunks do not depend on the order of the target         *)
(***************************************************************************)
EXTENDS Diff, Universe
FieldOrder == [k |-> 0, v |-> 0]   \* must stay the first definition of a root module (JsonValue.tla)

CONSTANT Family          \* "list" | "list4" | "nest" | "obj" | "keyed"

VARIABLE aux             \* [a, b, o, c, d]: the pair, the options, the target the diff is applied to, the diff
mvars == <<doc, rest, status, aux>>

Docs ==
  CASE Family = "list"  -> ScalArr(3, 2) \cup {Void}
    [] Family = "list4" -> ScalArr(4, 2) \cup {Arr(<<N1, N2, N3, N1, N2>>), Arr(<<N3, N1, N2, N2, N1, N3>>), Void}
    [] Family = "nest"  -> {Arr(t) : t \in TuplesUpTo({N1, N2, EmptyArr, Arr(<<N1>>), Arr(<<N1, N2>>), O1("k0", N1), O1("k0", N2)}, 2)} \cup {Void, N1}
    [] Family = "obj"   -> ObjFam(2, {N1, N2, EmptyArr, Arr(<<N1>>), O1("k0", N1)}) \cup {Void, N1, Arr(<<N1>>)}
    [] Family = "keyed" -> Keyed(2) \cup {Arr(<<KObj(N1, Arr(<<N1>>)), KObj(N2, N1)>>), Arr(<<KObj(N1, Arr(<<N1, N2>>)), KObj(N2, N1)>>)}

OptSets ==
  CASE Family = "keyed" -> {NoOpt, [NoOpt EXCEPT !.set = TRUE], [NoOpt EXCEPT !.mset = TRUE], [NoOpt EXCEPT !.keys = <<"id">>]}
    [] OTHER -> {NoOpt, [NoOpt EXCEPT !.set = TRUE], [NoOpt EXCEPT !.mset = TRUE], [NoOpt EXCEPT !.merge = TRUE],
                 [NoOpt EXCEPT !.set = TRUE, !.merge = TRUE], [NoOpt EXCEPT !.mset = TRUE, !.merge = TRUE]}

InDomain(a, b, o) == o.merge => (NullFree(a) /\ NullFree(b))

(* targets: a itself, b, and for the list family a few perturbations of a *)
TargetsOf(a, b) == IF Family \in {"list", "list4"} THEN {a, b} \cup Perturb(a) ELSE {a, b}

Init ==
  \E a \in Docs, b \in Docs, o \in OptSets :
    /\ InDomain(a, b, o)
    /\ \E c \in TargetsOf(a, b) :
         LET d == RefDiff(a, b, o) IN
         /\ aux = [a |-> a, b |-> b, o |-> o, c |-> c, d |-> d]
         /\ PatchInit(c, d)

Next == PatchNext /\ UNCHANGED aux
Spec == Init /\ [][Next]_mvars

Terminated == status \in {"ok", "err", "amb"}
OnSource == aux.c = aux.a

(* C01 on the model *)
RoundTrip == (status = "ok" /\ OnSource) => Eq(doc, aux.b, aux.o)
NoFailureOnSource == OnSource => status \notin {"err", "amb"}
(* the machine is total: while running, some action is enabled (no deadlock before termination) *)
Total == status = "run" => ENABLED PatchNext

(* the relations of DiffRel on the reference differ, evaluated once per initial state *)
AtStart == rest = aux.d /\ doc = aux.c /\ OnSource
ListModeO(o) == Reading(o) = "list" /\ ~o.merge
Relations ==
  AtStart =>
    /\ EmptyIffEqual(aux.a, aux.b, aux.o, aux.d)
    /\ ListModeO(aux.o) => (HasContext(aux.d) /\ Recurses(aux.d) /\ Minimal(aux.a, aux.b, aux.d) /\ IndicesIncrease(aux.d))
    /\ MentionsOnlyDifferences(aux.a, aux.b, aux.o, aux.d)
    /\ (~aux.o.merge /\ Reading(aux.o) = "list") => NoSharedPartReplaced(aux.d)
    /\ NoRedundantHunk(aux.a, aux.b, aux.o, aux.d)
    /\ NormDiff(aux.d) = aux.d

(* C08: set / bag hunks are insensitive to the order of the target *)
OrderInsensitive ==
  (AtStart /\ Reading(aux.o) # "list" /\ ~aux.o.merge /\ IsArr(aux.a)
     /\ \A i \in DOMAIN aux.d : LastKind(aux.d[i]) \in {"set", "mset"}) =>      \* hunks addressed to a set / multiset
     \A c \in Perms(aux.a) :
        LET r1 == ApplyAll(aux.a, aux.d)  r2 == ApplyAll(c, aux.d) IN
        (Bad(r1) /\ Bad(r2)) \/ (~Bad(r1) /\ ~Bad(r2) /\ EqR(r1, r2, Reading(aux.o)))
=============================================================================
