------------------------------ MODULE TraceCli ------------------------------
(***************************************************************************)
(* C14 (and the process clauses of C05, C13): every recorded process run   *)
(* is validated against the process machine of Cli.tla.                    *)
(*   Proc(inv, mode, proc, file, lib, twin, rt)+ End                       *)
(* inv is the abstract invocation the run was built from, proc what the    *)
(* process did, lib what the library renders in-process for the options    *)
(* the flags stand for, rt the follow-up run of jd -p on the output.       *)
(***************************************************************************)
EXTENDS JsonValue, TraceCore
FieldOrder == [k |-> 0, v |-> 0]   \* must stay the first definition of a root module (JsonValue.tla)
C == INSTANCE Cli WITH inv <- 0, phase <- 0, mode <- 0, result <- 0

CONSTANT Props, KnownDevs
VARIABLE prev
vars == <<shard, l, prev>>
Judge(p) == p \in Props
Init == CoreInit /\ prev = <<>>

PrecisionKnown(r) ==
  /\ "diff-ignores-precision" \in KnownDevs /\ r.inv.precision > 0 /\ r.mode = "diff" /\ ~r.lib.err /\ r.lib.eq /\ r.lib.diff

(* a listed deviation of the merge reader (C12), seen through the binaries: the round trip of -f merge output fails exactly *)
(* as the deviation predicts (the patch {} leaves a non-object a unchanged)                                                *)
MergeRtKnown(r) ==
  /\ r.inv.f = "merge" /\ r.rt.proc.exit = 0
  /\ "merge-empty-object-replaces" \in KnownDevs /\ r.lib.out = "{}" /\ r.rt.b = EmptyObj /\ ~IsObj(r.rt.a) /\ r.rt.doc = r.rt.a
MergeRtName(r) == "merge-empty-object-replaces"

TProc ==
  /\ IsEvent("Proc") /\ Consume
  /\ prev' = IF Rec.twin THEN prev ELSE [stdout |-> Rec.proc.stdout, exit |-> Rec.proc.exit, file |-> Rec.file]
  /\ LET i == Rec.inv  o == C!Outcome(i)  pr == Rec.proc
         wantExit == C!ExitOf(i, Rec.lib.err, Rec.lib.diff)
         isErr == wantExit = 2
     IN
     /\ Judge("C14") =>
          /\ Check(~pr.timeout, "C14", "hang")
          /\ Check(Rec.mode = C!ModeOf(i) \/ i.version, "C14", "mode")
          /\ Check(pr.exit = wantExit, "C14", <<"exit-status", o.kind, wantExit, pr.exit>>)
          /\ (o.kind = "lib" /\ ~Rec.lib.err /\ ~(i.o /\ i.obad)) =>
               IF i.o THEN /\ Check(pr.stdout = "", "C14", "o-also-prints")
                           /\ Check(Rec.file_written /\ Rec.file = Rec.lib.out, "C14", "o-file-differs-from-library")
               ELSE Check(pr.stdout = Rec.lib.out, "C14", "stdout-differs-from-library")
          \* not in the statement (only the status is): recorded, not judged
          /\ (isErr /\ o.kind # "usage") => Note(pr.stdout = "", "C14", "error-prints-to-stdout")
          /\ Rec.twin => Check(pr.stdout = prev.stdout /\ pr.exit = prev.exit /\ Rec.file = prev.file, "C14", "stdin-differs-from-file")
          \* a JSON Merge Patch cannot say "null": the merge format carries null-free documents only (C01, C11 say so too)
          /\ ("rt" \in DOMAIN Rec /\ (i.f = "merge" => (NullFree(Rec.rt.a) /\ NullFree(Rec.rt.b)))) =>
               /\ Check(Rec.rt.proc.exit = 0, "C14", <<"round-trip-patch-fails", Rec.rt.proc.exit>>)
               /\ Rec.rt.proc.exit = 0 =>
                    IF Rec.rt.doc.k # "I" /\ Eq(Rec.rt.doc, Rec.rt.b, Rec.rt.opts) THEN TRUE
                    ELSE IF MergeRtKnown(Rec) THEN PrintT(<<"JDV-KNOWN", Rec.sess, "C14", MergeRtName(Rec)>>)
                    ELSE FailLine("C14", "round-trip-does-not-reproduce-b")
     /\ (Judge("C05") /\ o.kind = "lib" /\ Rec.mode = "diff" /\ ~Rec.lib.err /\ ~(i.o /\ i.obad)) =>
             IF (pr.exit = 0) <=> Rec.lib.eq THEN TRUE
             ELSE IF PrecisionKnown(Rec) THEN PrintT(<<"JDV-KNOWN", Rec.sess, "C05", "diff-ignores-precision">>)
             ELSE FailLine("C05", <<"exit-vs-equals", pr.exit>>)
     /\ Judge("C13") =>
          /\ Check(~pr.stack_trace, "C13", "cli-stack-trace")
          /\ Check(~pr.timeout, "C13", "cli-hang")
          /\ (pr.exit = 2 /\ o.kind # "usage") => Check(pr.stderr_lines = 1, "C13", <<"cli-error-not-one-line", pr.stderr_lines>>)
          /\ Check(pr.exit \in {0, 1, 2}, "C13", <<"cli-exit", pr.exit>>)

(* C13 through the binaries: any diff text applied with -p ends with status 0 or 2; an error is one line, never a stack trace *)
TCliPatch ==
  /\ IsEvent("CliPatch") /\ Consume /\ UNCHANGED prev
  /\ Judge("C13") =>
       /\ Check(~Rec.proc.stack_trace, "C13", <<"cli-stack-trace", Rec.bin>>)
       /\ Check(~Rec.proc.timeout, "C13", <<"cli-hang", Rec.bin>>)
       /\ Check(Rec.proc.exit \in {0, 2}, "C13", <<"cli-exit", Rec.bin, Rec.proc.exit>>)
       /\ (Rec.proc.exit = 2 /\ ~Rec.proc.stack_trace) => Check(Rec.proc.stderr_lines = 1, "C13", <<"cli-error-not-one-line", Rec.bin>>)

TEnd == IsEvent("End") /\ Consume /\ prev' = <<>>
Next == TProc \/ TCliPatch \/ TEnd \/ (Done /\ UNCHANGED prev)
Spec == Init /\ [][Next]_vars
=============================================================================
