------------------------------ MODULE DocEdit ------------------------------
(***************************************************************************)
(* The document-edit machine: starting from a seed document, a behaviour   *)
(* applies up to MaxEdits random edits (insert, delete, replace, swap,        *)
(* duplicate, set key, drop key) at random positions of any depth.  Run    *)
(* under `tlc -simulate`, every behaviour that reaches MaxEdits is exported   *)
(* as one scenario [a |-> initial state, b |-> final state, mids |->       *)
(* intermediate states]: related pairs with long arrays and several        *)
(* independent edits (multi-hunk diffs with index shifts), and their       *)
(* intermediate states as patch targets "nobody wrote down".               *)
(***************************************************************************)
EXTENDS Universe, DiffRel, Json, IOUtils, CSV
FieldOrder == [k |-> 0, v |-> 0]   \* must stay the first definition of a root module (JsonValue.tla)

CONSTANT MaxEdits
VARIABLES cur, start, mids, n
evars == <<cur, start, mids, n, doc, rest, status>>

Atoms == {N1, N2, N3, S0, Arr(<<N1, N2>>), O1("k0", N1)}
Seeds ==
  { Arr(<<N1, N2, N3, N1, N2, N3>>), Arr(<<N1, N1, N2, N2, N3, N3, N1>>), Arr(<<S0, N1, Arr(<<N1, N2, N3>>), N2, O1("k0", N1), N3>>),
    O2("k0", Arr(<<N1, N2, N3, N1, N2>>), "k1", O1("k2", Arr(<<N1, N2, N3>>))),
    Arr(<<O2("k0", Arr(<<N1, N2, N3>>), "k1", N1), N2, O1("k0", Arr(<<N3, N2, N1, N2>>)), N1>>),
    O1("k0", O1("k1", O2("k2", Arr(<<N1, N2, N3, N1>>), "k0", N2))) }

(* rebuild n with the node at plain path p replaced by x *)
RECURSIVE PutAt(_, _, _)
PutAt(node, p, x) ==
  IF p = <<>> THEN x
  ELSE LET e == Head(p) IN
       IF e.k = "key" THEN ObjPut(node, e.v, PutAt(node.v[e.v], Tail(p), x))
       ELSE Arr(SeqReplace(node.v, e.v + 1, PutAt(node.v[e.v + 1], Tail(p), x)))

ArrPositions(node) == {p \in Positions(node) : IsArr(Get(node, p))}
ObjPositions(node) == {p \in Positions(node) : IsObj(Get(node, p))}

Step(x) == cur' = x /\ mids' = Append(mids, cur) /\ n' = n + 1 /\ UNCHANGED <<start, doc, rest, status>>

Insert == \E p \in ArrPositions(cur) : LET t == Get(cur, p).v IN Len(t) < 9 /\ \E i \in 0..Len(t), x \in Atoms :
             Step(PutAt(cur, p, Arr(SubSeq(t, 1, i) \o <<x>> \o SubSeq(t, i + 1, Len(t)))))
Delete == \E p \in ArrPositions(cur) : LET t == Get(cur, p).v IN \E i \in DOMAIN t : Step(PutAt(cur, p, Arr(SeqRemoveAt(t, i))))
ReplaceElem == \E p \in ArrPositions(cur) : LET t == Get(cur, p).v IN \E i \in DOMAIN t, x \in Atoms : x # t[i] /\ Step(PutAt(cur, p, Arr(SeqReplace(t, i, x))))
Swap == \E p \in ArrPositions(cur) : LET t == Get(cur, p).v IN \E i \in 1..(Len(t) - 1) :
             t[i] # t[i + 1] /\ Step(PutAt(cur, p, Arr(SeqReplace(SeqReplace(t, i, t[i + 1]), i + 1, t[i]))))
Duplicate == \E p \in ArrPositions(cur) : LET t == Get(cur, p).v IN Len(t) < 9 /\ \E i \in DOMAIN t :
             Step(PutAt(cur, p, Arr(SubSeq(t, 1, i) \o <<t[i]>> \o SubSeq(t, i + 1, Len(t)))))
SetKey == \E p \in ObjPositions(cur) : \E key \in {"k0", "k1", "k2"}, x \in Atoms :
             LET o == Get(cur, p) IN (IF HasKey(o, key) THEN o.v[key] # x ELSE TRUE) /\ Step(PutAt(cur, p, ObjPut(o, key, x)))
DropKey == \E p \in ObjPositions(cur) : LET o == Get(cur, p) IN \E key \in Keys(o) : Step(PutAt(cur, p, ObjDel(o, key)))

Init == cur \in Seeds /\ start = cur /\ mids = <<>> /\ n = 0 /\ doc = Void /\ rest = <<>> /\ status = "idle"
Next == n < MaxEdits /\ (Insert \/ Delete \/ ReplaceElem \/ Swap \/ Duplicate \/ SetKey \/ DropKey)
Spec == Init /\ [][Next]_evars

(* WriteOut: evaluated in every state; writes one line when a behaviour has used all its edits *)
WriteOut == n < MaxEdits \/ CSVWrite("%1$s", <<ToJson([a |-> start, b |-> cur, mids |-> mids])>>, IOEnv.JDV_OUT \o "/edits.csv")
=============================================================================
