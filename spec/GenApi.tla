------------------------------- MODULE GenApi -------------------------------
EXTENDS Api, Json, IOUtils
ASSUME ndJsonSerialize(IOEnv.JDV_OUT \o "/histories_2.ndjson", SetToSeq({[h |-> x] : x \in Histories(2)}))
ASSUME ndJsonSerialize(IOEnv.JDV_OUT \o "/histories_3.ndjson", SetToSeq({[h |-> x] : x \in Histories(3)}))
=============================================================================
