------------------------------ MODULE Universe ------------------------------
(***************************************************************************)
(* Document universes, option sets and the perturbation operator that      *)
(* makes "arbitrary targets".  All families are finite sets of nodes that  *)
(* TLC enumerates completely (GenUniverse.tla exports them).               *)
(***************************************************************************)
EXTENDS JsonValue

N1 == Num(8)     \* 1
N2 == Num(16)    \* 2
N3 == Num(24)    \* 3
N9 == Num(72)    \* 9   (a value that occurs in no generated document)
S0 == Str("s0")
S1 == Str("s1")

TuplesUpTo(A, L) == UNION {[1..n -> A] : n \in 0..L}

(* arrays of scalars with repeats *)
ScalAtoms(A) == CASE A = 2 -> {N1, N2} [] A = 3 -> {N1, N2, N3} [] A = 4 -> {N1, N2, N3, S0}
ScalArr(L, A) == {Arr(t) : t \in TuplesUpTo(ScalAtoms(A), L)}

(* arrays whose members are scalars and small containers *)
O1(k, x) == Obj([j \in {k} |-> x])
O2(k1, x1, k2, x2) == Obj([j \in {k1, k2} |-> IF j = k1 THEN x1 ELSE x2])
NestElems == { N1, N2, EmptyArr, Arr(<<N1>>), Arr(<<N1, N2>>), Arr(<<N2, N1>>),
               EmptyObj, O1("k0", N1), O1("k0", N2), O2("k0", N1, "k1", N1) }
NestArr(L) == {Arr(t) : t \in TuplesUpTo(NestElems, L)}

(* objects *)
ObjVals == { N1, N2, S0, Null, EmptyArr, Arr(<<N1>>), EmptyObj, O1("k0", N1) }
ObjKeys(K) == CASE K = 1 -> {"k0"} [] K = 2 -> {"k0", "k1"} [] K = 3 -> {"k0", "k1", "k2"}
ObjFam(K, V) == UNION { {Obj(f) : f \in [D -> V]} : D \in SUBSET ObjKeys(K) }

(* containers in arrays in containers *)
Leafs == {N1, N2, S0}
SmallArr == {Arr(t) : t \in TuplesUpTo({N1, N2}, 2)}
SmallObj == ObjFam(1, {N1, N2})
Deep ==
  LET inner == SmallArr \cup SmallObj \cup {N1}
      mid   == {Arr(t) : t \in TuplesUpTo(SmallArr \cup {O1("k0", N1), O1("k0", Arr(<<N1, N2>>)), N1}, 2)}
  IN  {O1("k0", m) : m \in mid} \cup {O2("k0", m, "k1", N1) : m \in SmallArr}
      \cup {Arr(<<O1("k0", x)>>) : x \in SmallArr} \cup {Arr(<<N1, O1("k0", x), N2>>) : x \in SmallArr}
      \cup {O1("k0", O1("k1", x)) : x \in inner}

(* long paths: an object with two scalar members under 1..6 levels of keys / array elements *)
RECURSIVE Wrap(_, _)
Wrap(n, w) == IF w = <<>> THEN n
              ELSE IF Head(w) = "arr" THEN Arr(<<Wrap(n, Tail(w))>>) ELSE O1(Head(w), Wrap(n, Tail(w)))
LeafObjs == {O2("k0", x, "k1", y) : x \in {N1, N2, N3}, y \in {N1, N2}} \cup {Obj([j \in {"k0", "k1", "k2"} |-> IF j = "k0" THEN x ELSE N1]) : x \in {N1, N2}}
            \cup {O2("k0", Arr(t), "k1", y) : t \in {<<N1>>, <<N1, N2>>, <<N1, N2, N3>>}, y \in {N1, N2}}
WrapShapes == { <<"k0">>, <<"k0", "k1">>, <<"k0", "k1", "k2">>, <<"k0", "arr", "k1">>, <<"k0", "k1", "k2", "k0">>,
                <<"k0", "k1", "k2", "k0", "k1">>, <<"k0", "arr", "k1", "arr", "k2", "k0">>, <<"arr", "k0", "k1">> }
DeepObj == {Wrap(n, w) : n \in LeafObjs, w \in WrapShapes}

(* arrays of scalars under 1..6 levels of keys / array elements (index bookkeeping on long paths) *)
DeepArr == {Wrap(Arr(t), w) : t \in TuplesUpTo({N1, N2}, 3), w \in WrapShapes}

(* arrays of keyed objects {id, v} with unique ids, plus at most one non-object member *)
KObj(i, x) == O2("id", i, "v", x)
KeyedMembers == {KObj(i, x) : i \in {N1, N2, N3}, x \in {N1, N2}}
UniqueIds(t) == \A i, j \in DOMAIN t : i # j => t[i].v["id"] # t[j].v["id"]
Keyed(L) ==
  LET pure == {t \in TuplesUpTo(KeyedMembers, L) : UniqueIds(t)}
  IN  {Arr(t) : t \in pure} \cup {Arr(Append(t, N1)) : t \in {u \in pure : Len(u) < L}}
(* keyed members whose key value is null, next to members of the same shape (the domain of SetKeys is respected: *)
(* every member carries the key; members lacking it appear only in perturbed targets)                            *)
KeyedNull == {Arr(t) : t \in {u \in TuplesUpTo({KObj(Null, N1), KObj(Null, N2), KObj(N1, N1), KObj(N1, N2)}, 2) : UniqueIds(u)}}
(* keyed members with TWO fields besides the key: several hunks address the same member one after the other *)
KObj3(i, x, y) == Obj([j \in {"id", "v", "w"} |-> IF j = "id" THEN i ELSE IF j = "v" THEN x ELSE y])
KeyedWide == {Arr(t) : t \in {u \in TuplesUpTo({KObj3(i, x, y) : i \in {N1, N2}, x \in {N1, N2}, y \in {N1, Arr(<<N1, N2>>)}}, 2) : UniqueIds(u)}}

(* members identified by a key whose VALUE is a container (an array, an object holding an array); distinct under every reading *)
KeyedContIds == {Arr(<<N1, N2>>), Arr(<<N1, N3>>), O1("k0", Arr(<<N2, N3>>)), Str("s0")}
KeyedCont == {Arr(t) : t \in {u \in TuplesUpTo({KObj(i, x) : i \in KeyedContIds, x \in {N1, N2}}, 2) : UniqueIds(u)}}
KeyedDeep ==
  {Arr(<<O2("id", N1, "v", x), O2("id", N2, "v", y)>>) :
     x \in {N1, Arr(<<N1>>), Arr(<<N1, N2>>), O1("k0", N1)}, y \in {N1, Arr(<<N2>>), O1("k0", N2)}}

(* objects whose keys are hostile to JSON Pointer (C09, C10, C18): e0, e1 need escaping, em is the   *)
(* empty key, n1 is "1", dash is "-", w0 is "01" (see KeyClass in JsonPatch.tla)                        *)
PtrKeys == {"k0", "e0", "e1", "em", "n1", "dash", "w0", "f0", "f1"}      \* f0, f1: keys that are float but not integer literals ("1.5", "1e0")
PtrVals == {N1, EmptyArr, Arr(<<N1, N2>>), O1("e0", N1)}
ObjPtr == UNION { {Obj(f) : f \in [D -> PtrVals]} : D \in {S \in SUBSET PtrKeys : Cardinality(S) <= 2} }
PtrDeep == {O1(key, Arr(t)) : key \in {"e0", "em", "k0"}, t \in TuplesUpTo({N1, N2, O1("e1", N1)}, 3)}
           \cup {Arr(<<O1(key, Arr(t))>>) : key \in {"e1", "k0"}, t \in TuplesUpTo({N1, N2}, 3)}

(* objects whose keys are different spellings of integers ("1", "01", "+1" under the pointer table): anything that orders or *)
(* compares keys numerically sees ties                                                                                      *)
IntKeys == UNION { {Obj(f) : f \in [D -> {N1, N2}]} : D \in SUBSET {"n1", "w0", "w1"} }

(* members identified by TWO keys; the same values also occur swapped across the keys *)
K2Obj(x, y, w) == Obj([j \in {"from", "to", "w"} |-> IF j = "from" THEN x ELSE IF j = "to" THEN y ELSE w])
K2Members == {K2Obj(x, y, w) : x \in {S0, S1}, y \in {S0, S1}, w \in {N1, N2}}
K2Unique(t) == \A i, j \in DOMAIN t : i # j => (t[i].v["from"] # t[j].v["from"] \/ t[i].v["to"] # t[j].v["to"])
Keyed2K == {Arr(t) : t \in {u \in TuplesUpTo(K2Members, 2) : K2Unique(u)}}

(* targets and patch documents for RFC 7386 (C12): nulls and empty objects at every depth *)
MV0 == {N1, S0, Null, EmptyObj, Arr(<<N1>>)}
MD1 == ObjFam(2, MV0)
MVK == {Bool(TRUE), Bool(FALSE), Num(0), Str("")}          \* the remaining kinds of value, as patch value and as target
MergeDocs == MV0 \cup MD1 \cup {O1("k0", d) : d \in MD1} \cup {O2("k0", d, "k1", x) : d \in MD1, x \in {N1, Null}}
             \cup {O1("k0", O1("k1", d)) : d \in ObjFam(1, MV0)} \cup {Arr(<<N1, Null>>), EmptyArr, N2}
             \cup MVK \cup {O1("k0", x) : x \in MVK} \cup {O2("k0", x, "k1", N1) : x \in MVK} \cup {O1("k0", O1("k1", x)) : x \in MVK}
             \cup {Arr(<<Bool(TRUE)>>)}

(* merge patches / targets with several leaf members under long key paths (depth 1..7) *)
MLeafs == {O2("k0", x, "k1", y) : x \in {N1, Null, S0}, y \in {N2, Null}} \cup
          {Obj([j \in {"k0", "k1", "k2"} |-> IF j = "k0" THEN x ELSE IF j = "k1" THEN Null ELSE N1]) : x \in {N1, EmptyObj}}
MKeyShapes == { <<"k0">>, <<"k0", "k1">>, <<"k0", "k1", "k2">>, <<"k0", "k1", "k2", "k0">>, <<"k0", "k1", "k2", "k0", "k1">>,
                <<"k0", "k1", "k2", "k0", "k1", "k2">> }
MergeDeep == {Wrap(n, w) : n \in MLeafs, w \in MKeyShapes}

(* documents for the carrier property (C16): every string atom y0..y49 (concretised by the yaml-hostile *)
(* table) as root, array member, object value and object key; numbers; empty containers               *)
YAtoms == {"y" \o ToString(i) : i \in 0..49}
YamlDocs ==
  UNION { {Str(y), Arr(<<Str(y), N1>>), O1("k0", Str(y)), Obj([j \in {y} |-> N1]), Arr(<<N1, Str(y)>>),
           Obj([j \in {"k0", y} |-> IF j = "k0" THEN Arr(<<Str(y)>>) ELSE Str(y)]),
           O2("k0", N1, "k1", Str(y))} : y \in YAtoms }
  \cup {Num(1000000 + i) : i \in 2..9} \cup {O1("k0", Num(1000000 + i)) : i \in 2..9} \cup {Arr(<<N1, Num(1000000 + i)>>) : i \in 2..9}
  \cup {Num(8), Num(1), Num(-20), Num(8000000), Num(0), Num(-1), Num(1000001), EmptyArr, EmptyObj, Null, Bool(TRUE), Bool(FALSE),
        Arr(<<EmptyArr, EmptyObj, Null>>), O2("k0", EmptyObj, "k1", EmptyArr), Arr(<<Num(1), Num(12)>>), O1("k0", Null),
        \* several empty containers in one document (values a reader might share)
        O2("k0", EmptyObj, "k1", EmptyObj), Arr(<<EmptyObj, EmptyObj>>), O2("k0", EmptyObj, "k1", Arr(<<EmptyObj>>)),
        O2("k0", EmptyArr, "k1", EmptyArr), Arr(<<EmptyArr, EmptyArr>>)}

(* string-to-string changes (character-level colour diff, escaping) *)
StrDocs == ObjFam(2, {S0, S1, Str("sA"), N1}) \cup {Arr(t) : t \in TuplesUpTo({S0, S1, Str("sA")}, 2)}

(* merge-mode pairs whose hunks write an object that has a null member (values a merge hunk shares with b) *)
MergeNull == {EmptyObj, O1("k1", N1), O1("k0", O2("k0", Null, "k1", N1)), O2("k0", O2("k0", Null, "k1", N1), "k1", N1),
              O1("k0", O1("k1", O2("k0", Null, "k2", S0))), O2("k0", Arr(<<Null, N1>>), "k1", O1("k0", Null))}

(* every kind of JSON value (number, zero, string, empty string, true, false, null, empty and non-empty containers) as root, *)
(* array member and object value: no differ / patcher / reader branch is a kind nobody exercised                             *)
KindAtoms == {N1, Num(0), S0, Str(""), Bool(TRUE), Bool(FALSE), Null, EmptyArr, EmptyObj}
AllKinds == KindAtoms \cup {Arr(t) : t \in TuplesUpTo(KindAtoms, 2)} \cup ObjFam(2, KindAtoms)
         \cup {O1("k0", O1("k1", x)) : x \in KindAtoms} \cup {O1("k0", Arr(<<x>>)) : x \in KindAtoms}

(* sibling containers with same-named array children, both edited (anything cached per depth / per last path element) *)
SibArrs == {Arr(t) : t \in TuplesUpTo({N1, N2}, 2)} \ {EmptyArr}
Siblings == {O2("k0", O1("k2", x), "k1", O1("k2", y)) : x \in SibArrs, y \in SibArrs}
            \cup {Arr(<<O2("id", N1, "k2", x), O2("id", N2, "k2", y)>>) : x \in SibArrs, y \in SibArrs}
            \cup {Arr(<<Arr(<<x>>), Arr(<<y>>)>>) : x \in {Arr(<<N1, N2>>), Arr(<<N2, N1>>), Arr(<<N1>>)}, y \in {Arr(<<N1, N2>>), Arr(<<N2, N1>>), Arr(<<N2>>)}}

(* sizes beyond every small threshold: arrays of 17 and 33 elements (with repeats) changed in one place, at the root, under a *)
(* key and as a member of an array; objects with 20 members changed in one place                                            *)
LongBase(L) == [i \in 1..L |-> Num(8 * (1 + (i % 5)))]
LongVariants(L) ==
  LET t == LongBase(L)  mid == (L + 1) \div 2 IN
  {t, Append(t, N9), <<N9>> \o t, SeqReplace(t, 1, N9), SeqReplace(t, mid, N9), SeqReplace(t, L, N9),
   SeqRemoveAt(t, 1), SeqRemoveAt(t, mid), SeqRemoveAt(t, L), SubSeq(t, 1, mid) \o <<N9>> \o SubSeq(t, mid + 1, L), Reverse(t),
   SubSeq(t, 1, L - 3)}
LongSeqs == LongVariants(17) \cup LongVariants(33)
LongRoot == {Arr(t) : t \in LongSeqs}
LongKey  == {O2("k0", Arr(t), "k1", N1) : t \in LongSeqs}
LongElem == {Arr(<<N1, Arr(t), N2>>) : t \in LongSeqs}
WideKeys == {"c" \o ToString(i) : i \in 0..19}
WideBase == [j \in WideKeys |-> N1]
Wide == {Obj(WideBase), Obj(FnWith(WideBase, "c7", N2)), Obj(FnWith(WideBase, "c0", N2)), Obj(FnWithout(WideBase, "c19")),
         Obj(FnWith(WideBase, "kz", N2)), Obj(FnWith(FnWith(WideBase, "c3", N2), "c12", S0)), Obj(FnWithout(FnWithout(WideBase, "c1"), "c2")),
         Obj(FnWith(WideBase, "c5", Arr(<<N1, N2>>))), O1("k0", Obj(WideBase)), O1("k0", Obj(FnWith(WideBase, "c7", N2))),
         Arr(<<Obj(WideBase)>>), Arr(<<Obj(FnWith(WideBase, "c9", N2))>>)}

(* an object of 40 members below the root that loses almost all of them *)
Wide40Keys == {"d" \o ToString(i) : i \in 0..39}
Wide40 == {O2("k0", Obj([j \in Wide40Keys |-> N1]), "k1", N1), O2("k0", Obj([j \in {"d0"} |-> N1]), "k1", N1), O2("k0", EmptyObj, "k1", N1),
           O2("k0", Obj([j \in {"d0", "d1", "kz"} |-> N2]), "k1", N1), O1("k0", O1("k1", Obj([j \in Wide40Keys |-> S0]))), O1("k0", O1("k1", EmptyObj))}

(* 4300 elements (an LCS table of 18 million cells): two replacements far apart, the last element replaced, an insertion in front *)
Huge2Base == [i \in 1..4300 |-> Num(8 * (1 + (i % 7)))]
Huge2 == {Arr(Huge2Base), Arr(SeqReplace(SeqReplace(Huge2Base, 11, N9), 4291, N9)), Arr(SeqReplace(Huge2Base, 4300, N9)), Arr(<<N9>> \o Huge2Base)}

(* one pair beyond thresholds in the thousands: 2100 elements, two replacements 2080 positions apart *)
HugeBase == [i \in 1..2100 |-> Num(8 * (1 + (i % 7)))]
Huge == {Arr(HugeBase), Arr(SeqReplace(SeqReplace(HugeBase, 11, N9), 2091, N9)), Arr(SeqReplace(HugeBase, 1050, N9))}

(* type-confusable values for the equality oracle (C04) *)
Confusable ==
  { Void, Null, Str(""), EmptyArr, EmptyObj, Num(0), Bool(FALSE), Bool(TRUE), Str("s0"),
    Arr(<<EmptyArr>>), Arr(<<Str("")>>), Arr(<<EmptyObj>>), Arr(<<Null>>), Arr(<<Num(0)>>),
    Arr(<<Arr(<<EmptyArr>>)>>), Arr(<<Arr(<<Str("")>>)>>), O1("k0", EmptyArr), O1("k0", Str("")),
    O1("k0", EmptyObj), O1("k0", Null),
    Num(1000001), Str("sA"), Arr(<<Num(1000001)>>), Arr(<<Str("sA")>>),
    Arr(<<N1, N1>>), Arr(<<N1>>), Arr(<<N1, N2>>), Arr(<<N2, N1>>), Arr(<<N1, N2, N1>>) }

(***************************************************************************)
(* Perturbation: documents "nobody wrote down".  Local variants of one     *)
(* node, applied at every position of the document.                        *)
(***************************************************************************)
ArrVariants(t) ==
  {Arr(Append(t, N9)), Arr(<<N9>> \o t)}
  \cup (IF Len(t) >= 1 THEN {Arr(Tail(t)), Arr(Front(t)), Arr(<<t[1]>> \o t), Arr(Append(t, t[Len(t)])),
                             Arr(SeqReplace(t, 1, N9)), Arr(SeqReplace(t, Len(t), N9))} ELSE {})
  \cup (IF Len(t) >= 2 THEN {Arr(<<t[2], t[1]>> \o SubSeq(t, 3, Len(t))), Arr(Reverse(t)),
                             Arr(Tail(t) \o <<t[1]>>)} ELSE {})
  \cup (IF Len(t) >= 3 THEN {Arr(SeqRemoveAt(t, 2)), Arr(SeqReplace(t, 2, N9))} ELSE {})

ObjVariants(f) ==
  {Obj(FnWith(f, "kz", N9))}
  \cup {Obj(FnWithout(f, key)) : key \in DOMAIN f}
  \cup {Obj(FnWith(f, key, N9)) : key \in DOMAIN f}
  \cup {Obj([j \in DOMAIN f |-> IF j = k1 THEN f[k2] ELSE IF j = k2 THEN f[k1] ELSE f[j]]) : k1 \in DOMAIN f, k2 \in DOMAIN f}

RECURSIVE Perturb(_)
Perturb(n) ==
  CASE IsArr(n) ->
         ArrVariants(n.v) \cup {N9, EmptyObj}
         \cup UNION {{Arr(SeqReplace(n.v, i, c)) : c \in Perturb(n.v[i])} : i \in DOMAIN n.v}
    [] IsObj(n) ->
         ObjVariants(n.v) \cup {N9, EmptyArr}
         \cup UNION {{Obj(FnWith(n.v, key, c)) : c \in Perturb(n.v[key])} : key \in Keys(n)}
    [] IsVoid(n) -> {N9}
    [] OTHER -> {N9, EmptyArr, EmptyObj} \ {n}

(* permutations of an array (set / bag targets) *)
Perms(n) == IF IsArr(n) /\ Len(n.v) <= 4 THEN {Arr(t) : t \in {u \in [DOMAIN n.v -> SeqRange(n.v)] :
                 \A x \in SeqRange(n.v) : Cardinality({i \in DOMAIN u : u[i] = x}) = Cardinality({i \in DOMAIN n.v : n.v[i] = x})}}
            ELSE {n}

Entry(n) == [d |-> n, nf |-> NullFree(n), p |-> SetToSeq(Perturb(n) \ {n}), q |-> SetToSeq(Perms(n) \ {n})]
Export(S) == [i \in 1..Cardinality(S) |-> Entry(SetToSeq(S)[i])]
ExportPlain(S) == [i \in 1..Cardinality(S) |-> [d |-> SetToSeq(S)[i], nf |-> NullFree(SetToSeq(S)[i]), p |-> <<>>, q |-> <<>>]]   \* no perturbations (huge documents)
=============================================================================
