-------------------------------- MODULE Api --------------------------------
(***************************************************************************)
(* Call histories over the read-only part of the API (C15).  The abstract  *)
(* state is the tuple of live values (documents a, b and the diff d);      *)
(* every read-only call leaves it unchanged and returns a function of it.  *)
(* Out is uninterpreted: the model only says THAT the output is determined *)
(* by the values, the harness instantiates it with the real calls.         *)
(***************************************************************************)
EXTENDS Integers, Sequences, FiniteSets, TLC, SequencesExt

Calls == {"Render", "RenderColor", "RenderPatch", "RenderMerge", "JsonA", "YamlA", "JsonB", "EqualsAB", "DiffAgain", "ReadMergeRender",
          "JsonASet", "YamlBMset"}      \* rendering under a SET / MULTISET render option

CONSTANT MaxLen
VARIABLES vals, memo, hist
avars == <<vals, memo, hist>>

Out(c, v) == <<c, v>>                 \* "the" output of call c on values v

ApiInit == vals \in {"v1", "v2"} /\ memo = <<>> /\ hist = <<>>
Call(c) ==
  /\ Len(hist) < MaxLen
  /\ hist' = Append(hist, c)
  /\ vals' = vals                                        \* purity
  /\ memo' = IF c \in DOMAIN memo THEN memo ELSE [x \in DOMAIN memo \cup {c} |-> IF x = c THEN Out(c, vals) ELSE memo[x]]
ApiNext == \E c \in Calls : Call(c)
ApiSpec == ApiInit /\ [][ApiNext]_avars

Pure == [][vals' = vals]_avars
Deterministic == \A c \in DOMAIN memo : memo[c] = Out(c, vals)

(* all histories up to a length, for replay through the real API *)
Histories(n) == UNION {[1..k -> Calls] : k \in 1..n}
=============================================================================
