----------------------------- MODULE JsonValue -----------------------------
(***************************************************************************)
(* The value universe of jd: JSON documents, the void document, array      *)
(* readings, and the equality oracle.  Everything else in /verif/spec is   *)
(* built on this module.                                                   *)
(*                                                                         *)
(* Encoding (DESIGN.md 3.2).  Every node is a tag-first record             *)
(*      [k |-> kind, v |-> payload]                                        *)
(* so that TLC, which compares record fields in name order and stops at    *)
(* the first difference, never compares payloads of different TLA+ type.   *)
(*      "n" number   v = integer in units of 1/8                           *)
(*      "x" number   v = string (a number that is not a multiple of 1/8)   *)
(*      "s" string   v = string atom                                       *)
(*      "b" bool     v = BOOLEAN                                           *)
(*      "z" null     v = 0                                                 *)
(*      "v" void     v = 0    (absence of a document / of a value)         *)
(*      "A" array    v = tuple of nodes                                    *)
(*      "O" object   v = function from key strings to nodes (<<>> if empty)*)
(***************************************************************************)
EXTENDS Integers, Sequences, FiniteSets, TLC, SequencesExt, FiniteSetsExt

(* TLC compares records field by field in the order of its internal string table, which is
   the order in which the identifiers were first seen by the parser - the ROOT module is
   lexed first.  Every root module therefore begins with  FieldOrder == [k |-> 0, v |-> 0]
   so that the tag k is compared before the payload v; the assumption below fails loudly
   (instead of letting a comparison go wrong silently) if a root module forgets it. *)
ASSUME FieldOrderGuard == [k |-> "A", v |-> <<1>>] # [k |-> "O", v |-> [a |-> 1]]

Num(i)  == [k |-> "n", v |-> i]
Str(s)  == [k |-> "s", v |-> s]
Bool(b) == [k |-> "b", v |-> b]
Null    == [k |-> "z", v |-> 0]
Void    == [k |-> "v", v |-> 0]
Arr(t)  == [k |-> "A", v |-> t]
Obj(f)  == [k |-> "O", v |-> f]
EmptyObj == Obj(<<>>)
EmptyArr == Arr(<<>>)

IsNum(n)  == n.k = "n"
IsStr(n)  == n.k = "s"
IsNull(n) == n.k = "z"
IsVoid(n) == n.k = "v"
IsArr(n)  == n.k = "A"
IsObj(n)  == n.k = "O"
IsContainer(n) == n.k \in {"A", "O"}

Keys(o)     == DOMAIN o.v
HasKey(o,k) == k \in DOMAIN o.v

(* function helpers that never compare values of different type *)
FnWith(f, k, x)  == [j \in (DOMAIN f) \cup {k} |-> IF j = k THEN x ELSE f[j]]
FnWithout(f, k)  == [j \in (DOMAIN f) \ {k} |-> f[j]]

ObjPut(o, k, x) == Obj(FnWith(o.v, k, x))
ObjDel(o, k)    == Obj(FnWithout(o.v, k))

SeqRange(s) == {s[i] : i \in DOMAIN s}
SeqReplace(s, i, x) == [j \in DOMAIN s |-> IF j = i THEN x ELSE s[j]]
SeqRemoveAt(s, i)   == SubSeq(s, 1, i-1) \o SubSeq(s, i+1, Len(s))
Single(s) == IF Len(s) = 0 THEN Void ELSE s[1]

RECURSIVE SumSeq(_)
SumSeq(s) == IF s = <<>> THEN 0 ELSE Head(s) + SumSeq(Tail(s))

Abs(i) == IF i < 0 THEN -i ELSE i
Min2(a, b) == IF a < b THEN a ELSE b
Max2(a, b) == IF a > b THEN a ELSE b

(***************************************************************************)
(* Structure                                                               *)
(***************************************************************************)
RECURSIVE Size(_)
Size(n) ==
  CASE IsArr(n) -> 1 + SumSeq([i \in DOMAIN n.v |-> Size(n.v[i])])
    [] IsObj(n) -> 1 + SumSeq([i \in 1..Cardinality(Keys(n)) |-> Size(n.v[SetToSeq(Keys(n))[i]])])
    [] OTHER    -> 1

RECURSIVE NullFree(_)
NullFree(n) ==
  CASE IsNull(n) -> FALSE
    [] IsArr(n)  -> \A i \in DOMAIN n.v : NullFree(n.v[i])
    [] IsObj(n)  -> \A k \in Keys(n) : NullFree(n.v[k])
    [] OTHER     -> TRUE

MaxOf(S) == CHOOSE d \in S : \A e \in S : e <= d

RECURSIVE Depth(_)
Depth(n) ==
  CASE IsArr(n) -> IF n.v = <<>> THEN 1 ELSE 1 + MaxOf({Depth(n.v[i]) : i \in DOMAIN n.v})
    [] IsObj(n) -> IF Keys(n) = {} THEN 1 ELSE 1 + MaxOf({Depth(n.v[k]) : k \in Keys(n)})
    [] OTHER    -> 0

(***************************************************************************)
(* Readings of arrays and the option record.                               *)
(*   opt = [set, mset : BOOLEAN, keys : Seq(STRING), merge : BOOLEAN,      *)
(*          eps : Nat (units of 1/8)]                                      *)
(***************************************************************************)
NoOpt == [set |-> FALSE, mset |-> FALSE, keys |-> <<>>, merge |-> FALSE, eps |-> 0]
Reading(o) == IF o.set \/ Len(o.keys) > 0 THEN "set" ELSE IF o.mset THEN "mset" ELSE "list"

(* Canonical form: arrays become sets ("S") or bags ("B") recursively.     *)
(* Two documents are equal under the set / bag reading iff their canonical *)
(* forms are equal.  Kinds are disjoint by construction.                   *)
RECURSIVE Canon(_, _)
Canon(n, rd) ==
  CASE IsArr(n) /\ rd = "set" ->
         [k |-> "S", v |-> {Canon(n.v[i], rd) : i \in DOMAIN n.v}]
    [] IsArr(n) /\ rd = "mset" ->
         LET c == [i \in DOMAIN n.v |-> Canon(n.v[i], rd)]
             R == SeqRange(c)
         IN [k |-> "B", v |-> [m \in R |-> Cardinality({i \in DOMAIN c : c[i] = m})]]
    [] IsArr(n) -> Arr([i \in DOMAIN n.v |-> Canon(n.v[i], rd)])
    [] IsObj(n) -> Obj([key \in Keys(n) |-> Canon(n.v[key], rd)])
    [] OTHER -> n

(* list reading with a numeric tolerance *)
RECURSIVE EqList(_, _, _)
EqList(a, b, eps) ==
  IF a.k # b.k THEN
       \* "n" and "x" are both numbers but an exotic number is only ever equal to itself
       FALSE
  ELSE CASE a.k = "n" -> Abs(a.v - b.v) <= eps
         [] a.k = "A" -> /\ Len(a.v) = Len(b.v)
                         /\ \A i \in DOMAIN a.v : EqList(a.v[i], b.v[i], eps)
         [] a.k = "O" -> /\ Keys(a) = Keys(b)
                         /\ \A key \in Keys(a) : EqList(a.v[key], b.v[key], eps)
         [] OTHER -> a.v = b.v

(* The equality oracle of C04. *)
Eq(a, b, o) ==
  IF Reading(o) = "list" THEN EqList(a, b, o.eps)
  ELSE Canon(a, Reading(o)) = Canon(b, Reading(o))

EqR(a, b, rd) == IF rd = "list" THEN a = b ELSE Canon(a, rd) = Canon(b, rd)

(* same kind of container under a reading (lists / sets / bags / objects) *)
SameContainerKind(a, b) == (IsArr(a) /\ IsArr(b)) \/ (IsObj(a) /\ IsObj(b))

(***************************************************************************)
(* Length of a longest common subsequence of two tuples, bottom-up DP.     *)
(* Elements are compared with "=" on nodes (exact structural equality,     *)
(* which is what list mode without Precision means).                       *)
(***************************************************************************)
RECURSIVE LcsRow(_, _, _, _, _)
\* prev: row for the first i-1 elements of a (length Len(b)+1, index j+1 holds column j)
\* acc : the part of the new row computed so far (columns 0..j-1)
LcsRow(prev, x, b, j, acc) ==
  IF j > Len(b) THEN acc
  ELSE LET val == IF x = b[j] THEN prev[j] + 1
                  ELSE Max2(prev[j+1], acc[j])
       IN LcsRow(prev, x, b, j+1, Append(acc, val))

RECURSIVE LcsRows(_, _, _, _)
LcsRows(a, b, i, prev) ==
  IF i > Len(a) THEN prev
  ELSE LcsRows(a, b, i+1, LcsRow(prev, a[i], b, 1, <<0>>))

LcsLen(a, b) == LcsRows(a, b, 1, [j \in 1..(Len(b)+1) |-> 0])[Len(b)+1]

=============================================================================
