------------------------------ MODULE DiffText ------------------------------
(***************************************************************************)
(* The native jd diff format: writer (v2/diff_write.go:41-165), path <->   *)
(* JSON array mapping (v2/path.go:46-108), metadata lines                  *)
(* (v2/metadata.go) and the line-oriented reader automaton                 *)
(* (v2/diff_read.go:24-201) with its seven states.                         *)
(*                                                                         *)
(* A text is a sequence of lines; a line is [h |-> header, p |-> payload]  *)
(* where the header is the first character and the payload is the JSON     *)
(* value of the rest of the line as a node, Void for a blank rest, or      *)
(* Invalid when the rest is not JSON.  (Lexing text into such lines is the *)
(* harness' codec; everything else is here.)                               *)
(***************************************************************************)
EXTENDS Patch

Invalid == [k |-> "I", v |-> 0]
IsInvalid(n) == n.k = "I"
Line(h, p) == [h |-> h, p |-> p]

(* ---- paths ---------------------------------------------------------------- *)
Trunc8(v) == IF v >= 0 THEN v \div 8 ELSE -((-v) \div 8)     \* Go's int(float64) truncates

BadElem == [k |-> "bad", v |-> 0]
ElemOfNode(n) ==
  CASE n.k = "s" -> PKey(n.v)
    [] n.k = "n" -> PIdx(Trunc8(n.v))
    [] n.k = "O" -> IF Keys(n) = {} THEN PSet ELSE PSetKeys(n.v)
    [] n.k = "A" -> IF Len(n.v) = 0 THEN PMset
                    ELSE IF Len(n.v) = 1 /\ IsObj(n.v[1]) THEN PMsetKeys(n.v[1].v)
                    ELSE BadElem
    [] OTHER -> BadElem
PathOK(n) == IsArr(n) /\ \A i \in DOMAIN n.v : ElemOfNode(n.v[i]) # BadElem
PathOfNode(n) == [i \in DOMAIN n.v |-> ElemOfNode(n.v[i])]

NodeOfElem(e) ==
  CASE e.k = "key" -> Str(e.v)
    [] e.k = "idx" -> Num(8 * e.v)
    [] e.k = "set" -> EmptyObj
    [] e.k = "mset" -> EmptyArr
    [] e.k = "setkeys" -> Obj(e.v)
    [] e.k = "msetkeys" -> Arr(<<Obj(e.v)>>)
NodeOfPath(p) == Arr([i \in DOMAIN p |-> NodeOfElem(p[i])])

(* ---- writer ---------------------------------------------------------------- *)
MergeMeta == Obj([x \in {"Merge"} |-> Bool(TRUE)])

CtxLines(s, marker) ==
  [i \in DOMAIN s |-> IF IsVoid(s[i]) THEN Line(marker, Void) ELSE Line(" ", s[i])]
RemoveLines(s) == LET t == SelectSeq(s, LAMBDA x : ~IsVoid(x)) IN [i \in DOMAIN t |-> Line("-", t[i])]
AddLines(s, merge) ==
  LET t == SelectSeq(s, LAMBDA x : merge \/ ~IsVoid(x)) IN [i \in DOMAIN t |-> Line("+", t[i])]

RenderHunk(h) ==
  (IF h.merge THEN <<Line("^", MergeMeta)>> ELSE <<>>)
  \o <<Line("@", NodeOfPath(h.path))>>
  \o CtxLines(h.before, "[")
  \o RemoveLines(h.remove)
  \o AddLines(h.add, h.merge)
  \o CtxLines(h.after, "]")

RECURSIVE RenderDiff(_)
RenderDiff(d) == IF d = <<>> THEN <<>> ELSE RenderHunk(Head(d)) \o RenderDiff(Tail(d))

(* ---- reader automaton -------------------------------------------------------- *)
(* state: st in INIT META AT BEFORE REMOVE ADD AFTER ERR; de = element under        *)
(* construction (its merge flag is inherited and sticky); out = flushed elements    *)
EmptyDe == Hunk(FALSE, <<>>, <<>>, <<>>, <<>>, <<>>)
RInit == [st |-> "INIT", de |-> EmptyDe, out |-> <<>>]

Allowed(st) ==
  CASE st \in {"INIT", "META"} -> {"^", "@"}
    [] st = "AT"     -> {"[", " ", "-", "+"}
    [] st = "BEFORE" -> {" ", "-", "+"}
    [] st = "REMOVE" -> {"-", "+", " ", "]", "^", "@"}
    [] st = "ADD"    -> {"+", " ", "]", "^", "@"}
    [] st = "AFTER"  -> {" ", "]", "^", "@"}
    [] OTHER -> {}

(* checkDiffElement: several removes or adds only for array-like last path elements *)
ElementOK(de) ==
  (Len(de.add) > 1 \/ Len(de.remove) > 1) =>
      (de.path # <<>> /\ de.path[Len(de.path)].k \in {"set", "setkeys", "mset", "msetkeys", "idx"})

MetaOK(n) ==
  /\ IsObj(n)
  /\ Keys(n) \subseteq {"Merge"}
  /\ \A key \in Keys(n) : n.v[key].k = "b"
MetaMerge(n) == "Merge" \in Keys(n) /\ n.v["Merge"].v

RErr(s) == [s EXCEPT !.st = "ERR"]

(* FlushFrom: the states from which a new "^" / "@" line completes the element.       *)
(* dev "meta-after-context-not-flushed" reproduces the code before the repair: "^"     *)
(* arriving in state AFTER did not save the element.                                   *)
FlushOnMeta(dev) == IF "meta-after-context-not-flushed" \in dev THEN {"ADD", "REMOVE"} ELSE {"ADD", "REMOVE", "AFTER"}
FlushOnAt == {"ADD", "REMOVE", "AFTER"}

RStep(s, ln, dev) ==
  IF s.st = "ERR" THEN s
  ELSE IF ln.h \notin Allowed(s.st) THEN RErr(s)
  ELSE
    CASE ln.h = "^" ->
           LET flush == s.st \in FlushOnMeta(dev) IN
           IF flush /\ ~ElementOK(s.de) THEN RErr(s)
           ELSE IF IsInvalid(ln.p) \/ IsVoid(ln.p) \/ ~MetaOK(ln.p) THEN RErr(s)
           ELSE [st  |-> "META",
                 de  |-> [s.de EXCEPT !.merge = s.de.merge \/ MetaMerge(ln.p)],
                 out |-> IF flush THEN Append(s.out, s.de) ELSE s.out]
      [] ln.h = "@" ->
           LET flush == s.st \in FlushOnAt IN
           IF flush /\ ~ElementOK(s.de) THEN RErr(s)
           ELSE IF IsInvalid(ln.p) \/ IsVoid(ln.p) \/ ~PathOK(ln.p) THEN RErr(s)
           ELSE [st  |-> "AT",
                 de  |-> Hunk(s.de.merge, PathOfNode(ln.p), <<>>, <<>>, <<>>, <<>>),
                 out |-> IF flush THEN Append(s.out, s.de) ELSE s.out]
      [] ln.h = "[" ->
           [s EXCEPT !.st = "BEFORE", !.de.before = Append(@, Void)]
      [] ln.h = "]" ->
           [s EXCEPT !.st = "AFTER", !.de.after = Append(@, Void)]
      [] ln.h = " " ->
           IF IsInvalid(ln.p) THEN RErr(s)
           ELSE IF s.st \in {"AT", "BEFORE"} THEN [s EXCEPT !.st = "BEFORE", !.de.before = Append(@, ln.p)]
           ELSE [s EXCEPT !.st = "AFTER", !.de.after = Append(@, ln.p)]
      [] ln.h = "-" ->
           IF IsInvalid(ln.p) THEN RErr(s)
           ELSE [s EXCEPT !.st = "REMOVE", !.de.remove = Append(@, ln.p)]
      [] ln.h = "+" ->
           IF IsInvalid(ln.p) THEN RErr(s)
           ELSE [s EXCEPT !.st = "ADD", !.de.add = Append(@, ln.p)]
      [] OTHER -> RErr(s)

REnd(s) ==      \* [ok |-> BOOLEAN, diff |-> hunks]
  IF s.st \in {"ERR", "META", "AT"} THEN [ok |-> FALSE, diff |-> <<>>]
  ELSE IF s.st = "INIT" THEN [ok |-> TRUE, diff |-> s.out]
  ELSE IF ~ElementOK(s.de) THEN [ok |-> FALSE, diff |-> <<>>]
  ELSE [ok |-> TRUE, diff |-> Append(s.out, s.de)]

RECURSIVE RFold(_, _, _)
RFold(s, lines, dev) == IF lines = <<>> THEN s ELSE RFold(RStep(s, Head(lines), dev), Tail(lines), dev)

ReadLinesD(lines, dev) == REnd(RFold(RInit, lines, dev))
ReadLines(lines) == ReadLinesD(lines, {})

(* ---- well-formed diffs (the shapes the library emits or its reader accepts) ---- *)
RenderedChange(h) ==
  \/ \E i \in DOMAIN h.remove : ~IsVoid(h.remove[i])
  \/ \E i \in DOMAIN h.add : ~IsVoid(h.add[i]) \/ h.merge
ArrayLike(h) == h.path # <<>> /\ h.path[Len(h.path)].k \in {"set", "setkeys", "mset", "msetkeys", "idx"}
WellFormedHunk(h) ==
  /\ RenderedChange(h)
  /\ \A i \in DOMAIN h.remove : ~IsVoid(h.remove[i])            \* void is never a removed value
  /\ \A i \in DOMAIN h.add : IsVoid(h.add[i]) => (h.merge /\ Len(h.add) = 1)   \* void addition = merge deletion
  /\ (Len(h.remove) > 1 \/ Len(h.add) > 1) => ArrayLike(h)
  /\ h.merge => h.remove = <<>>
  /\ Len(h.before) <= 1 /\ Len(h.after) <= 1
WellFormedDiff(d) ==
  /\ \A i \in DOMAIN d : WellFormedHunk(d[i])
  /\ \A i, j \in DOMAIN d : (i < j /\ d[i].merge) => d[j].merge        \* strict hunks precede merge hunks

(* the carrier property on the model: Read(Render(d)) = Norm(d), rendering is idempotent *)
CarrierOK(d) ==
  LET t == RenderDiff(d)  r == ReadLines(t) IN
  /\ r.ok
  /\ r.diff = NormDiff(d)
  /\ RenderDiff(r.diff) = t
=============================================================================
