------------------------------ MODULE GenVary ------------------------------
(***************************************************************************)
(* Reads the Vary records of a pass-1 trace (real diffs with the ops the   *)
(* real RenderPatch produced for them) and writes the patch documents made *)
(* by the variation operators of JsonPatch.tla for pass 2 (C10).           *)
(***************************************************************************)
EXTENDS JsonPatch, TraceCore
FieldOrder == [k |-> 0, v |-> 0]   \* must stay the first definition of a root module (JsonValue.tla)

N9 == Num(72)
VaryRecs(k) == SelectSeq(Shards[k], LAMBDA r : r.op = "Vary")

(* group the real ops per hunk using the writer model's op counts *)
RECURSIVE Split(_, _)
Split(ops, lens) ==
  IF lens = <<>> THEN <<>>
  ELSE <<SubSeq(ops, 1, Head(lens))>> \o Split(SubSeq(ops, Head(lens) + 1, Len(ops)), Tail(lens))

Groups(r) ==
  IF ~DiffOpsOK(r.diff) THEN <<>>
  ELSE LET lens == [i \in DOMAIN r.diff |-> Len(HunkToOps(r.diff[i]))] IN
       IF SumSeq(lens) # Len(r.ops) THEN <<>> ELSE Split(r.ops, lens)

VariedOf(r) ==
  LET gs == Groups(r) IN
  IF gs = <<>> THEN <<>>
  ELSE LET V == SetToSeq({Flatten(x) : x \in Variations(gs, N9)}) IN
       [i \in DOMAIN V |-> [src |-> r.sess, ops |-> V[i], targets |-> r.targets]]

RECURSIVE FlatMap(_, _)
FlatMap(s, i) == IF i > Len(s) THEN <<>> ELSE VariedOf(s[i]) \o FlatMap(s, i + 1)
RECURSIVE AllShards(_)
AllShards(k) == IF k < 0 THEN <<>> ELSE FlatMap(VaryRecs(k), 1) \o AllShards(k - 1)

Out == AllShards(NShards - 1)
ASSUME ndJsonSerialize(IOEnv.JDV_OUT \o "/vary.ndjson", Out)
ASSUME PrintT(<<"JDV-STAT", "varied_patches", Len(Out)>>)

GenInit == doc = Void /\ rest = <<>> /\ status = "ok" /\ shard = 0 /\ l = 1
GenNext == UNCHANGED <<doc, rest, status, shard, l>>
=============================================================================
