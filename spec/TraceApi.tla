------------------------------ MODULE TraceApi ------------------------------
(***************************************************************************)
(* C15: trace validation of call histories against Api.tla.                *)
(*   ApiBegin(seed, a, b, opts, obs) Ref(name,out)* Call(name,out,obs)*    *)
(*   Final(res, eq) End                                                    *)
(* obs is the projection of every live value (a, b, d) taken after the     *)
(* call; memo holds the first output seen for each call of a seed (a, b,   *)
(* options) - across repetitions, histories and a reference process.       *)
(***************************************************************************)
EXTENDS JsonValue, TraceCore
FieldOrder == [k |-> 0, v |-> 0]   \* must stay the first definition of a root module (JsonValue.tla)

CONSTANT Props, KnownDevs
VARIABLES vals, memo, seed
vars == <<shard, l, vals, memo, seed>>

Init == CoreInit /\ vals = <<>> /\ memo = <<>> /\ seed = -1

TBegin ==
  /\ IsEvent("ApiBegin") /\ Consume
  /\ vals' = Rec.obs
  /\ seed' = Rec.seed
  /\ memo' = IF Rec.seed = seed THEN memo ELSE <<>>

Remember(name, out) ==
  IF name \in DOMAIN memo THEN memo' = memo
  ELSE memo' = [x \in DOMAIN memo \cup {name} |-> IF x = name THEN out ELSE memo[x]]

TRef ==
  /\ IsEvent("Ref") /\ Consume /\ UNCHANGED <<vals, seed>>
  /\ Remember(Rec.name, Rec.out)
  /\ (Rec.name \in DOMAIN memo) => Check(memo[Rec.name] = Rec.out, "C15", <<"differs-across-processes", Rec.name>>)

TCall ==
  /\ IsEvent("Call") /\ Consume /\ UNCHANGED seed
  /\ Check(Rec.st \in {"ok", "err"}, "C15", <<"call-crashed", Rec.name>>)
  \* purity: the projection of the live values is unchanged (Api!Call: vals' = vals)
  /\ Check(Rec.obs = vals, "C15", <<"mutated-by", Rec.name>>)
  /\ vals' = Rec.obs
  \* determinism: same call on same values, same output (Api!Deterministic)
  /\ Remember(Rec.name, Rec.out)
  /\ (Rec.name \in DOMAIN memo) => Check(memo[Rec.name] = Rec.out, "C15", <<"nondeterministic", Rec.name>>)

TFinal ==
  /\ IsEvent("Final") /\ Consume /\ UNCHANGED <<vals, memo, seed>>
  /\ Check(Rec.res.st = "ok" /\ Rec.eq, "C15", "patch-after-rendering")

TEnd == IsEvent("End") /\ Consume /\ UNCHANGED <<vals, memo, seed>>

Next == TBegin \/ TRef \/ TCall \/ TFinal \/ TEnd \/ (Done /\ UNCHANGED <<vals, memo, seed>>)
Spec == Init /\ [][Next]_vars
=============================================================================
