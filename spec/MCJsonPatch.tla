---------------------------- MODULE MCJsonPatch ----------------------------
(***************************************************************************)
(* Design-level model of the RFC 6902 translation (C09, C10, C18): the     *)
(* evaluator runs as a machine (one op per step) over the ops the writer   *)
(* model produces for RefDiff(a, b); TLC checks                            *)
(*   - evaluation on a ends in b                                           *)
(*   - on every target where the native diff applies (Patch.tla) the ops   *)
(*     apply with the same result                                          *)
(*   - inexpressible paths are refused                                     *)
(*   - every variation of the op groups that the native reading still      *)
(*     applies is never more permissive than the evaluator (consistent     *)
(*     shifts, dropped hunks, dropped context, changed values)             *)
(***************************************************************************)
EXTENDS Diff, JsonPatch, Universe
FieldOrder == [k |-> 0, v |-> 0]   \* must stay the first definition of a root module (JsonValue.tla)
VARIABLES ops, pcnt, cur, aux
jvars == <<ops, pcnt, cur, aux, doc, rest, status>>

Docs == ScalArr(3, 2) \cup {Arr(t) : t \in TuplesUpTo({N1, Arr(<<N1>>), Arr(<<N1, N2>>), O1("k0", N1), O1("k0", N2)}, 2)}
        \cup ObjFam(2, {N1, Arr(<<N1, N2>>), Arr(<<N2>>)}) \cup {O1("n1", N1), O1("dash", N1), O2("n1", N1, "k0", N2), O1("e0", Arr(<<N1>>)), O1("e0", Arr(<<N2, N1>>))}

Init ==
  \E a \in Docs, b \in Docs :
    LET d == RefDiff(a, b, NoOpt) IN
    /\ DiffOpsOK(d)
    /\ \E c \in {a, b} \cup (IF IsArr(a) /\ Len(a.v) <= 2 THEN Perturb(a) ELSE {}) :
         /\ aux = [a |-> a, b |-> b, d |-> d, c |-> c]
         /\ ops = DiffToOps(d) /\ pcnt = 1 /\ cur = c
    /\ doc = Void /\ rest = <<>> /\ status = "idle"

StepOp ==     \* the evaluator: one operation per step; an error is terminal
  /\ pcnt <= Len(ops) /\ ~IsErr(cur)
  /\ cur' = EvalOp(cur, ops[pcnt]) /\ pcnt' = pcnt + 1 /\ UNCHANGED <<ops, aux, doc, rest, status>>
Next == StepOp
Spec == Init /\ [][Next]_jvars

Finished == pcnt = Len(ops) + 1 \/ IsErr(cur)
MachineIsEval == Finished => (IsErr(cur) <=> IsErr(Eval(ops, aux.c))) /\ (~IsErr(cur) => cur = Eval(ops, aux.c))
OnA == (Finished /\ aux.c = aux.a) => cur = aux.b
NativeImpliesRfc ==
  Finished => LET m == ApplyAll(aux.c, aux.d) IN (~Bad(m)) => (~IsErr(cur) /\ cur = m)
Refusal == \A a \in Docs, b \in Docs : LET d == RefDiff(a, b, NoOpt) IN MustRefuse(d) => ~DiffOpsOK(d)
=============================================================================
