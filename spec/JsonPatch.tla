----------------------------- MODULE JsonPatch -----------------------------
(***************************************************************************)
(* RFC 6901 / RFC 6902: an independent evaluator of JSON Patch documents   *)
(* (the oracle of C09, C10, C18), the translation hunk -> ops that jd's    *)
(* RenderPatch performs (v2/diff_write.go:167-269, v2/pointer.go:38-65),   *)
(* and the variation operators that make "subset-preserving variations"    *)
(* of a patch document (C10).                                              *)
(*                                                                         *)
(* An op is [op, path, value, from]; a path is a tuple of tokens; a token  *)
(* is [s |-> string, i |-> Int] where s is the unescaped reference token   *)
(* and i is its reading as an array index: the number if s is a canonical  *)
(* index (zero, or digits without a leading zero), -2 if s is "-", -1 otherwise.  Which reading   *)
(* applies is decided by the TARGET, as RFC 6901 section 4 says.           *)
(***************************************************************************)
EXTENDS Patch

Tok(s, i) == [s |-> s, i |-> i]
Op(o, p, val) == [op |-> o, path |-> p, value |-> val, from |-> <<>>, wf |-> TRUE]
(* wf: the harness' syntactic verdict on the op (members present, "path" / "from" are RFC 6901 pointers) *)

(* ---- key classes of the concretisation tables ------------------------------- *)
(* symbolic keys n0.. stand for canonical numbers ("0","1","12"), w0.. for keys   *)
(* strconv.Atoi accepts but RFC 6901 does not read as indices ("01","+1","-1"),   *)
(* "dash" for "-"; everything else is an ordinary key (possibly needing escapes). *)
KeyClass(s) ==
  CASE s \in {"n0", "n1", "n2"} -> "num"
    [] s \in {"w0", "w1", "w2"} -> "weird"
    [] s = "dash" -> "dash"
    [] OTHER -> "plain"
KeyIndex(s) == CASE s = "n0" -> 0 [] s = "n1" -> 1 [] s = "n2" -> 12 [] OTHER -> -1
(* the symbolic key whose text is the decimal numeral of i (every table maps n0, n1, n2 to "0", "1", "12") *)
IdxSym(i) == CASE i = 0 -> "n0" [] i = 1 -> "n1" [] i = 12 -> "n2" [] OTHER -> ToString(i)
IdxTok(i) == IF i >= 0 THEN Tok(IdxSym(i), i) ELSE Tok(ToString(i), -1)
DashTok == Tok("dash", -2)

(* ---- RFC 6901 resolution ------------------------------------------------------ *)
NoVal == [k |-> "N", v |-> 0]        \* "no such location"
IsNoVal(n) == n.k = "N"
PErr == [k |-> "E", v |-> 0]

RECURSIVE Resolve(_, _)
Resolve(n, p) ==
  IF p = <<>> THEN n
  ELSE LET t == Head(p) IN
       CASE IsObj(n) -> IF HasKey(n, t.s) THEN Resolve(n.v[t.s], Tail(p)) ELSE NoVal
         [] IsArr(n) -> IF t.i >= 0 /\ t.i < Len(n.v) THEN Resolve(n.v[t.i + 1], Tail(p)) ELSE NoVal
         [] OTHER -> NoVal

(* rebuild n with the value at p replaced by f(old); PErr when p does not resolve *)
RECURSIVE Update(_, _, _)
Update(n, p, x) ==          \* x: the new value at location p (which must exist)
  IF p = <<>> THEN x
  ELSE LET t == Head(p) IN
       CASE IsObj(n) /\ HasKey(n, t.s) ->
              LET r == Update(n.v[t.s], Tail(p), x) IN IF IsErr(r) THEN r ELSE ObjPut(n, t.s, r)
         [] IsArr(n) /\ t.i >= 0 /\ t.i < Len(n.v) ->
              LET r == Update(n.v[t.i + 1], Tail(p), x) IN IF IsErr(r) THEN r ELSE Arr(SeqReplace(n.v, t.i + 1, r))
         [] OTHER -> PErr

FrontP(p) == SubSeq(p, 1, Len(p) - 1)
LastP(p)  == p[Len(p)]

(* ---- the operations ----------------------------------------------------------- *)
OpAdd(d, p, x) ==
  IF p = <<>> THEN x
  ELSE LET par == Resolve(d, FrontP(p))  t == LastP(p) IN
       CASE IsVoid(d) -> PErr
         [] IsObj(par) -> Update(d, FrontP(p), ObjPut(par, t.s, x))
         [] IsArr(par) ->
              IF t.i = -2 THEN Update(d, FrontP(p), Arr(Append(par.v, x)))
              ELSE IF t.i >= 0 /\ t.i <= Len(par.v)
                   THEN Update(d, FrontP(p), Arr(SubSeq(par.v, 1, t.i) \o <<x>> \o SubSeq(par.v, t.i + 1, Len(par.v))))
              ELSE PErr
         [] OTHER -> PErr

OpRemove(d, p) ==
  IF IsVoid(d) THEN PErr
  ELSE IF p = <<>> THEN Void                      \* removing the root leaves no document
  ELSE LET par == Resolve(d, FrontP(p))  t == LastP(p) IN
       CASE IsObj(par) /\ HasKey(par, t.s) -> Update(d, FrontP(p), ObjDel(par, t.s))
         [] IsArr(par) /\ t.i >= 0 /\ t.i < Len(par.v) -> Update(d, FrontP(p), Arr(SeqRemoveAt(par.v, t.i + 1)))
         [] OTHER -> PErr

OpTest(d, p, x) ==
  IF IsVoid(d) THEN PErr
  ELSE LET cur == Resolve(d, p) IN IF IsNoVal(cur) \/ cur # x THEN PErr ELSE d

OpReplace(d, p, x) ==
  IF IsVoid(d) \/ IsNoVal(Resolve(d, p)) THEN PErr ELSE Update(d, p, x)

IsProperPrefix(p, q) == Len(p) < Len(q) /\ SubSeq(q, 1, Len(p)) = p

OpMove(d, from, p) ==
  IF IsVoid(d) \/ IsNoVal(Resolve(d, from)) \/ IsProperPrefix(from, p) THEN PErr
  ELSE LET x == Resolve(d, from)  r == OpRemove(d, from) IN IF IsErr(r) THEN r ELSE OpAdd(r, p, x)

OpCopy(d, from, p) ==
  IF IsVoid(d) \/ IsNoVal(Resolve(d, from)) THEN PErr ELSE OpAdd(d, p, Resolve(d, from))

OpWellFormed(o) ==
  /\ o.wf
  /\ o.op \in {"add", "remove", "replace", "test", "move", "copy"}
  /\ (o.op \in {"add", "replace", "test"}) => o.value.k # "N"

EvalOp(d, o) ==
  IF ~OpWellFormed(o) THEN PErr
  ELSE CASE o.op = "add"     -> OpAdd(d, o.path, o.value)
         [] o.op = "remove"  -> OpRemove(d, o.path)
         [] o.op = "replace" -> OpReplace(d, o.path, o.value)
         [] o.op = "test"    -> OpTest(d, o.path, o.value)
         [] o.op = "move"    -> OpMove(d, o.from, o.path)
         [] o.op = "copy"    -> OpCopy(d, o.from, o.path)

RECURSIVE Eval(_, _)
Eval(ops, d) ==
  IF ops = <<>> THEN d
  ELSE LET r == EvalOp(d, Head(ops)) IN IF IsErr(r) THEN r ELSE Eval(Tail(ops), r)

(* ---- the evaluator as a machine (design-level checking, coverage) ------------- *)
\* variables are declared by the modules that instantiate the machine (MCJsonPatch.tla)

(* ---- jd's writer: hunk -> ops -------------------------------------------------- *)
Refuse == [s |-> "<refuse>", i |-> -9]

TokOfElem(e) ==
  CASE e.k = "key" -> IF KeyClass(e.v) = "plain" THEN Tok(e.v, -1) ELSE Refuse
    [] e.k = "idx" -> IF e.v = -1 THEN DashTok ELSE IdxTok(e.v)
    [] OTHER -> Refuse
PointerOK(p) == \A i \in DOMAIN p : TokOfElem(p[i]) # Refuse
PointerOf(p) == [i \in DOMAIN p |-> TokOfElem(p[i])]

WithLastIdx(p, j) == [i \in DOMAIN p |-> IF i = Len(p) THEN PIdx(j) ELSE p[i]]

HunkOpsOK(h) ==
  /\ PointerOK(h.path)
  /\ h.remove # <<>> \/ h.add # <<>>
  /\ Len(h.before) <= 1 /\ Len(h.after) <= 1
  /\ (Len(h.before) = 1 /\ ~IsVoid(h.before[1])) => (h.path # <<>> /\ LastP(h.path).k = "idx")
  /\ (Len(h.after) = 1 /\ ~IsVoid(h.after[1])) => (h.path # <<>> /\ LastP(h.path).k = "idx")

RECURSIVE RevSeq(_)
RevSeq(s) == IF s = <<>> THEN <<>> ELSE Append(RevSeq(Tail(s)), Head(s))

HunkToOps(h) ==
  LET ptr == PointerOf(h.path)
      bf  == IF Len(h.before) = 1 /\ ~IsVoid(h.before[1])
             THEN <<Op("test", PointerOf(WithLastIdx(h.path, LastP(h.path).v - 1)), h.before[1])>> ELSE <<>>
      af  == IF Len(h.after) = 1 /\ ~IsVoid(h.after[1])
             THEN <<Op("test", PointerOf(WithLastIdx(h.path, LastP(h.path).v + Len(h.remove))), h.after[1])>> ELSE <<>>
      RECURSIVE Rm(_)
      Rm(s) == IF s = <<>> THEN <<>> ELSE <<Op("test", ptr, Head(s)), Op("remove", ptr, Head(s))>> \o Rm(Tail(s))
      rm  == IF h.remove # <<>> /\ IsVoid(h.remove[1]) THEN <<>> ELSE Rm(h.remove)
      ra  == RevSeq(h.add)
      ad  == IF ra # <<>> /\ IsVoid(ra[1]) THEN <<>> ELSE [i \in DOMAIN ra |-> Op("add", ptr, ra[i])]
  IN bf \o af \o rm \o ad

DiffOpsOK(d) == \A i \in DOMAIN d : ~d[i].merge /\ HunkOpsOK(d[i])
RECURSIVE DiffToOps(_)
DiffToOps(d) == IF d = <<>> THEN <<>> ELSE HunkToOps(Head(d)) \o DiffToOps(Tail(d))

(* paths that must be refused rather than mistranslated (C09): set-like elements, *)
(* keys that are canonical numbers, the key "-"                                     *)
MustRefuse(d) ==
  \E i \in DOMAIN d : \E j \in DOMAIN d[i].path :
     LET e == d[i].path[j] IN
     \/ e.k \in {"set", "mset", "setkeys", "msetkeys"}
     \/ e.k = "key" /\ KeyClass(e.v) \in {"num", "dash"}
MayRefuse(d) ==
  \/ MustRefuse(d)
  \/ \E i \in DOMAIN d : \E j \in DOMAIN d[i].path : d[i].path[j].k = "key" /\ KeyClass(d[i].path[j].v) = "weird"

(* ---- C10: subset-preserving variations of a patch document --------------------- *)
(* the ops are grouped per hunk by GroupBounds (given by the generator);            *)
(* a variation maps a sequence of groups to a sequence of groups                    *)
Flatten(gs) == LET RECURSIVE F(_) F(s) == IF s = <<>> THEN <<>> ELSE Head(s) \o F(Tail(s)) IN F(gs)

ShiftTok(t, delta) == IF t.i >= 0 /\ t.i + delta >= 0 THEN IdxTok(t.i + delta) ELSE t
ShiftOp(o, delta) ==
  IF o.path = <<>> THEN o ELSE [o EXCEPT !.path = [i \in DOMAIN o.path |-> IF i = Len(o.path) THEN ShiftTok(o.path[i], delta) ELSE o.path[i]]]
\* "indices shifted consistently across a hunk's ops": every index of the group moves, or none does
CanShift(g, delta) == \A i \in DOMAIN g : g[i].path # <<>> /\ LastP(g[i].path).i >= 0 /\ LastP(g[i].path).i + delta >= 0
ShiftGroup(g, delta) == IF CanShift(g, delta) THEN [i \in DOMAIN g |-> ShiftOp(g[i], delta)] ELSE g
DropContext(g) ==      \* keeps test ops only when the next op is a remove on the same path
  LET keepAt(i) == g[i].op # "test" \/ (i < Len(g) /\ g[i + 1].op = "remove" /\ g[i + 1].path = g[i].path)
      idx == SelectSeq([i \in DOMAIN g |-> i], keepAt)
  IN [j \in DOMAIN idx |-> g[idx[j]]]
ChangeValues(g, x) ==  \* the same new value in every test/remove pair
  [i \in DOMAIN g |-> IF g[i].op \in {"test", "remove"} /\ (g[i].op = "remove" \/ (i < Len(g) /\ g[i + 1].op = "remove" /\ g[i + 1].path = g[i].path))
                      THEN [g[i] EXCEPT !.value = x] ELSE g[i]]
DashAdds(g) ==         \* adds at an index become appends
  [i \in DOMAIN g |-> IF g[i].op = "add" /\ g[i].path # <<>> /\ LastP(g[i].path).i >= 0
                      THEN [g[i] EXCEPT !.path = [j \in DOMAIN g[i].path |-> IF j = Len(g[i].path) THEN DashTok ELSE g[i].path[j]]]
                      ELSE g[i]]

(* an index token written in a non-canonical way ("01"): RFC 6901 does not read it as an array index *)
LeadingZero(t) == IF t.i >= 0 THEN Tok("0" \o ToString(t.i), -1) ELSE t
ZeroPad(g) == [i \in DOMAIN g |-> IF g[i].path = <<>> THEN g[i]
                 ELSE [g[i] EXCEPT !.path = [j \in DOMAIN g[i].path |-> IF j = Len(g[i].path) THEN LeadingZero(g[i].path[j]) ELSE g[i].path[j]]]]

(* compositions: context tests dropped everywhere and one group shifted - by one, or onto the index of the group before it *)
(* (consecutive groups on the same path are what a reader might coalesce)                                                *)
MainIdx(g) == IF g # <<>> /\ g[1].path # <<>> THEN LastP(g[1].path).i ELSE -1
ParentOf(g) == IF g # <<>> /\ g[1].path # <<>> THEN SubSeq(g[1].path, 1, Len(g[1].path) - 1) ELSE <<>>
AlignDelta(gs, k) ==
  LET a == DropContext(gs[k - 1])  b == DropContext(gs[k]) IN
  IF MainIdx(a) >= 0 /\ MainIdx(b) >= 0 /\ ParentOf(a) = ParentOf(b) THEN MainIdx(a) - MainIdx(b) ELSE 0
Composed(gs) ==
  {[i \in DOMAIN gs |-> IF i = k THEN ShiftGroup(DropContext(gs[i]), delta) ELSE DropContext(gs[i])] : k \in DOMAIN gs, delta \in {-1, 1}}
  \* one group loses its context tests and moves; the others keep theirs
  \cup {[i \in DOMAIN gs |-> IF i = k THEN ShiftGroup(DropContext(gs[i]), delta) ELSE gs[i]] : k \in DOMAIN gs, delta \in {-1, 1}}
  \cup {[i \in DOMAIN gs |-> IF i = k THEN ShiftGroup(DropContext(gs[i]), AlignDelta(gs, k)) ELSE gs[i]] : k \in (DOMAIN gs) \ {1}}
  \cup {[i \in DOMAIN gs |-> IF i = k THEN ShiftGroup(DropContext(gs[i]), AlignDelta(gs, k)) ELSE DropContext(gs[i])] : k \in (DOMAIN gs) \ {1}}

Variations(gs, x) ==
  {gs} \cup Composed(gs)
  \cup {[i \in DOMAIN gs |-> IF i = k THEN ZeroPad(gs[i]) ELSE gs[i]] : k \in DOMAIN gs}
  \cup {[i \in DOMAIN gs |-> IF i = k THEN ShiftGroup(gs[i], delta) ELSE gs[i]] : k \in DOMAIN gs, delta \in {-1, 1}}
  \cup {SubSeq(gs, 1, k - 1) \o SubSeq(gs, k + 1, Len(gs)) : k \in DOMAIN gs}
  \cup {[i \in DOMAIN gs |-> IF i = k THEN DropContext(gs[i]) ELSE gs[i]] : k \in DOMAIN gs}
  \cup {[i \in DOMAIN gs |-> DropContext(gs[i])]}
  \cup {[i \in DOMAIN gs |-> IF i = k THEN ChangeValues(gs[i], x) ELSE gs[i]] : k \in DOMAIN gs}
  \cup {[i \in DOMAIN gs |-> IF i = k THEN DashAdds(gs[i]) ELSE gs[i]] : k \in DOMAIN gs}
=============================================================================
