------------------------------ MODULE MCMerge ------------------------------
(***************************************************************************)
(* Design-level model of the RFC 7386 translation (C11, C12, C18):         *)
(*  - MergePatch(a, RenderMerge(RefDiff(a, b, MERGE))) = b for null-free    *)
(*    documents that differ, under list / set / bag readings;               *)
(*  - applying the ideal hunk list of a patch document with the hunk        *)
(*    machine equals MergePatch(target, patch) whenever the patch has no    *)
(*    empty object and is not null at the root (the two things a merge      *)
(*    hunk cannot express - exactly the listed deviations of C12).          *)
(***************************************************************************)
EXTENDS Diff, MergePatch, Universe
FieldOrder == [k |-> 0, v |-> 0]   \* must stay the first definition of a root module (JsonValue.tla)
VARIABLES t, p, go       \* go: the invariants are evaluated after one step, by all workers
mvars == <<t, p, go, doc, rest, status>>
NF == {n \in ObjFam(2, {N1, N2, S0, EmptyArr, Arr(<<N1, N2>>), Arr(<<N2, N1>>), EmptyObj, O1("k0", N1), O1("k0", EmptyObj)}) : TRUE} \cup {N1, Arr(<<N1>>)}
Patches == MergeDocs
Init == /\ \/ (t \in NF /\ p \in NF) \/ (t \in MergeDocs /\ p \in Patches)
        /\ doc = Void /\ rest = <<>> /\ status = "idle" /\ go = FALSE
Next == go = FALSE /\ go' = TRUE /\ UNCHANGED <<t, p, doc, rest, status>>
MergeOpts == {[NoOpt EXCEPT !.merge = TRUE], [NoOpt EXCEPT !.merge = TRUE, !.set = TRUE], [NoOpt EXCEPT !.merge = TRUE, !.mset = TRUE]}

RECURSIVE HasEmptyObj(_)
HasEmptyObj(n) == IsObj(n) /\ (Keys(n) = {} \/ \E key \in Keys(n) : HasEmptyObj(n.v[key]))

C11 ==
  (go /\ t \in NF /\ p \in NF) =>
     \A o \in MergeOpts :
        ~Eq(t, p, o) =>
          LET d == RefDiff(t, p, o)  m == RenderMergeModel(d) IN
          /\ ~Bad(m)
          /\ Eq(MergePatch(t, m), p, o)
C12 ==
  (go /\ t \in MergeDocs /\ p \in Patches /\ ~HasEmptyObj(p) /\ ~IsNull(p)) =>
     LET r == ApplyAll(t, MergeHunks(p)) IN ~Bad(r) /\ r = MergePatch(t, p)
(* and the listed deviations say precisely what the reader the code has does *)
C12Deviations ==
  (go /\ t \in MergeDocs /\ p \in Patches) =>
     MergePatchD(t, p, {"merge-empty-object-replaces", "merge-root-null-deletes"}, TRUE) = ApplyAll(t, CodeMergeHunks(p))
=============================================================================
