----------------------------- MODULE TraceCore -----------------------------
(***************************************************************************)
(* Common part of every trace specification: the trace is NShards ndjson   *)
(* files written by the harness (a session never spans two shards); the    *)
(* trace spec runs one deterministic chain per shard, consuming one record *)
(* per step.  Verdicts are printed, one line per failing session and       *)
(* clause, so that the orchestrator sees ALL failures:                     *)
(*     <<"JDV-FAIL", sess, property, clause>>                              *)
(*     <<"JDV-NOTE", sess, property, what>>       (informational)          *)
(*     <<"JDV-DONE", shard, records consumed>>                             *)
(* Acceptance: every record of every shard was consumed (POSTCONDITION).   *)
(***************************************************************************)
EXTENDS Integers, Sequences, TLC, Json, IOUtils

NShards == 16
TraceDir == IOEnv.JDV_TRACE
ShardFile(k) == TraceDir \o "/shard" \o ToString(k) \o ".ndjson"
Shards == [k \in 0..(NShards - 1) |-> ndJsonDeserialize(ShardFile(k))]
TotalRecords == LET RECURSIVE S(_) S(k) == IF k < 0 THEN 0 ELSE Len(Shards[k]) + S(k - 1) IN S(NShards - 1)

VARIABLES shard, l

More   == l <= Len(Shards[shard])
Rec    == Shards[shard][l]
IsEvent(op) == More /\ Rec.op = op
Consume == l' = l + 1 /\ UNCHANGED shard

FailLine(prop, clause) == PrintT(<<"JDV-FAIL", Rec.sess, prop, clause>>)
NoteLine(prop, what)   == PrintT(<<"JDV-NOTE", Rec.sess, prop, what>>)
(* Check(c, prop, clause): TRUE always; prints a failure line when c is false *)
(* IF, not a disjunction: in an action TLC explores BOTH disjuncts of  c \/ Print  and would print always *)
Check(c, prop, clause) == IF c THEN TRUE ELSE FailLine(prop, clause)
Note(c, prop, what)    == IF c THEN TRUE ELSE NoteLine(prop, what)

CoreInit == shard \in 0..(NShards - 1) /\ l = 1
Done == ~More /\ l = Len(Shards[shard]) + 1 /\ PrintT(<<"JDV-DONE", shard, l - 1>>) /\ UNCHANGED <<shard, l>>

(* every chain visited every record: one state per record plus the initial state of each chain *)
TraceAccepted == TLCGet("stats").distinct = TotalRecords + NShards
=============================================================================
