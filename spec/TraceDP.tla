------------------------------ MODULE TraceDP ------------------------------
(***************************************************************************)
(* Trace validation of diff-then-patch sessions (driver "dp") and of       *)
(* patch-on-arbitrary-target sessions (driver "pt") against the hunk       *)
(* application machine (Patch.tla) and the diff relations (DiffRel.tla).   *)
(*                                                                         *)
(* Session grammar:                                                        *)
(*   Begin(a,b,opts) Diff(diff) PatchStep(k,res)* Equals EqualsAB End      *)
(*   Begin(a,b,opts) Diff(diff) ( Target(sub,c) PatchStep(k,res)* )* End   *)
(* PatchStep k carries what the real Patch returned for the first k hunks  *)
(* applied to a fresh copy of the document: the real intermediate state.   *)
(* It is validated by the machine's own actions: ApplyNext must be enabled *)
(* and lead to the logged document; Fail must be enabled when the real     *)
(* Patch returned an error.                                                *)
(***************************************************************************)
EXTENDS DiffRel, TraceCore
FieldOrder == [k |-> 0, v |-> 0]   \* must stay the first definition of a root module (JsonValue.tla)

CONSTANT Props,       \* the property ids whose clauses are judged in this run
         KnownDevs    \* names of the listed deviations (known_findings.json) that may explain a failure

VARIABLE ctx
vars == <<shard, l, doc, rest, status, ctx>>

NoCtx == [a |-> Void, b |-> Void, o |-> NoOpt, d |-> <<>>, n |-> 0, mode |-> "dp", t |-> 0]
Judge(p) == p \in Props
Rd == Reading(ctx.o)
ListMode(o) == Reading(o) = "list" /\ ~o.merge

Init == CoreInit /\ doc = Void /\ rest = <<>> /\ status = "idle" /\ ctx = NoCtx

TBegin ==
  /\ IsEvent("Begin") /\ Consume
  /\ ctx' = [a |-> Rec.a, b |-> Rec.b, o |-> Rec.opts, d |-> <<>>, n |-> 0, mode |-> "dp", t |-> 0]
  /\ doc' = Rec.a /\ rest' = <<>> /\ status' = "idle"

(* the listed deviation "setkeys-identity-ignores-key-names": HasIdentCollision2 is defined in Patch.tla *)
(* the same for the clauses judged when the diff arrives (the context is not yet updated) *)
CheckD(c, a, b, o, prop, clause) ==
  IF c THEN TRUE
  ELSE IF "setkeys-identity-ignores-key-names" \in KnownDevs /\ Len(o.keys) >= 2
          /\ HasIdentCollision2(a, b, o.keys)
       THEN PrintT(<<"JDV-KNOWN", Rec.sess, prop, "setkeys-identity-ignores-key-names", clause>>)
  ELSE FailLine(prop, clause)

(* ---- the diff as returned ------------------------------------------------ *)
DiffClauses(a, b, o, d) ==
  /\ Judge("C06") =>
       IF ListMode(o) /\ o.eps = 0 THEN
            /\ Check(HasContext(d), "C06", "context-lines")
            /\ Check(Recurses(d), "C06", "recurse")
            /\ Check(Minimal(a, b, d), "C06", "minimal")
            \* document order of the hunks is what the code does, not what the statement demands: recorded only
            /\ Note(IndicesIncrease(d), "C06", "order")
       ELSE TRUE
  /\ Judge("C07") =>
       /\ CheckD(MentionsOnlyDifferences(a, b, o, d), a, b, o, "C07", "real-difference")
       /\ Check(NoSharedPartReplaced(d), "C07", "equal-subdocument")
       /\ CheckD(NoRedundantHunk(a, b, o, d), a, b, o, "C07", "redundant-hunk")

TDiff ==
  /\ IsEvent("Diff") /\ Consume /\ UNCHANGED doc
  /\ IF Rec.st = "ok" THEN
        /\ rest' = Rec.diff
        /\ status' = IF Rec.diff = <<>> THEN "ok" ELSE "run"
        /\ ctx' = [ctx EXCEPT !.d = Rec.diff, !.n = Len(Rec.diff)]
        /\ DiffClauses(ctx.a, ctx.b, ctx.o, Rec.diff)
        /\ (Len(Rec.diff) >= 2 => PrintT(<<"JDV-STAT", "multi_hunk_diffs", 1>>))
        /\ (Rec.diff # <<>> => PrintT(<<"JDV-STAT", "nontrivial", 1>>))
     ELSE
        /\ Check(~Judge("C01"), "C01", "diff-call")
        /\ Check(~Judge("C13"), "C13", "diff-call")
        /\ rest' = <<>> /\ status' = "skip" /\ UNCHANGED ctx

(* ---- a target for (a sub-sequence of) the diff ---------------------------- *)
SubDiff(d, ix) == [j \in DOMAIN ix |-> d[ix[j] + 1]]
TTarget ==
  /\ IsEvent("Target") /\ Consume
  /\ doc' = Rec.c
  /\ rest' = SubDiff(ctx.d, Rec.sub)
  /\ status' = "run"
  /\ ctx' = [ctx EXCEPT !.mode = "pt", !.n = Len(Rec.sub), !.t = Rec.t]

(* ---- one hunk -------------------------------------------------------------- *)
StepAgrees ==
  LET r == Next1 IN
  \/ IsAmb(r)
  \/ Rec.res.st = "ok"  /\ ~Bad(r) /\ EqR(r, Rec.res.doc, Rd)
  \/ Rec.res.st = "err" /\ IsErr(r)

AgreesD(dev) ==
  LET r == ApplyHunkD(doc, Head(rest), dev) IN
  \/ Rec.res.st = "ok"  /\ ~Bad(r) /\ EqR(r, Rec.res.doc, Rd)
  \/ Rec.res.st = "err" /\ IsErr(r)
Explained == \E D \in KnownDevs : AgreesD({D})
StepProp == IF ListMode(ctx.o) THEN "C03" ELSE "C08"

IdentKnown ==
  /\ "setkeys-identity-ignores-key-names" \in KnownDevs /\ Len(ctx.o.keys) >= 2
  /\ HasIdentCollision2(ctx.a, ctx.b, ctx.o.keys)
(* CheckK: like Check, but a failure on an input of the listed class is reported as that finding *)
CheckK(c, prop, clause) ==
  IF c THEN TRUE
  ELSE IF IdentKnown THEN PrintT(<<"JDV-KNOWN", Rec.sess, prop, "setkeys-identity-ignores-key-names", clause>>)
  ELSE FailLine(prop, clause)

LiteralC01 ==
  (Judge("C01") /\ ctx.mode = "dp" /\ Rec.k = ctx.n) => CheckK(Rec.res.st = "ok", "C01", "patch")
Crash ==
  Judge("C13") => Check(Rec.res.st \in {"ok", "err"}, "C13", "patch-crash")

TStepOk ==
  /\ IsEvent("PatchStep") /\ status = "run" /\ Rec.res.st = "ok"
  /\ ApplyNext /\ EqR(doc', Rec.res.doc, Rd)
  /\ Consume /\ UNCHANGED ctx /\ LiteralC01
TStepErr ==
  /\ IsEvent("PatchStep") /\ status = "run" /\ Rec.res.st = "err"
  /\ Fail
  /\ Consume /\ UNCHANGED ctx /\ LiteralC01
TStepAmb ==
  /\ IsEvent("PatchStep") /\ status = "run"
  /\ Ambiguous
  /\ Consume /\ UNCHANGED ctx /\ LiteralC01 /\ Crash
TStepKnown ==     \* the step disagrees with the semantics but is exactly what a listed deviation predicts
  /\ IsEvent("PatchStep") /\ status = "run" /\ ~StepAgrees /\ Explained
  /\ Consume /\ UNCHANGED ctx /\ LiteralC01 /\ Crash
  /\ Judge(StepProp) =>
        PrintT(<<"JDV-KNOWN", Rec.sess, StepProp, CHOOSE D \in KnownDevs : AgreesD({D}), ctx.t, Rec.k, Rec.res.st>>)
  /\ IF Rec.res.st = "ok" THEN Advance(Rec.res.doc)
     ELSE status' = "err" /\ UNCHANGED <<doc, rest>>
TStepMismatch ==
  /\ IsEvent("PatchStep") /\ status = "run" /\ ~StepAgrees /\ ~Explained
  /\ Consume /\ UNCHANGED <<ctx, doc, rest>> /\ status' = "skip"
  /\ LiteralC01 /\ Crash
  /\ IF ctx.mode = "pt" THEN
        /\ (Judge("C03") /\ ListMode(ctx.o)) => FailLine("C03", <<"step", ctx.t, Rec.k, Rec.res.st>>)
        /\ (Judge("C08") /\ ~ListMode(ctx.o)) => FailLine("C08", <<"step", ctx.t, Rec.k, Rec.res.st>>)
     ELSE
        /\ Judge("C01") => NoteLine("C01", <<"bind", Rec.k, Rec.res.st>>)
        /\ (Judge("C03") /\ ListMode(ctx.o)) => FailLine("C03", <<"step", ctx.t, Rec.k, Rec.res.st>>)
        /\ (Judge("C08") /\ ~ListMode(ctx.o)) => FailLine("C08", <<"step", ctx.t, Rec.k, Rec.res.st>>)
TStepAfter ==      \* the machine has stopped (error, ambiguity, mismatch): the event is consumed unjudged
  /\ IsEvent("PatchStep") /\ status # "run"
  /\ Consume /\ UNCHANGED <<ctx, doc, rest, status>> /\ LiteralC01 /\ Crash

(* ---- the statement of C01, literally --------------------------------------- *)
TEquals ==
  /\ IsEvent("Equals") /\ Consume /\ UNCHANGED <<ctx, doc, rest, status>>
  /\ Judge("C01") => CheckK(Rec.res.st = "ok" /\ Rec.res.bool, "C01", "equals")
  /\ (Judge("C01") /\ status = "ok" /\ Rec.res.st = "ok") =>
        Note(Rec.res.bool = Eq(doc, ctx.b, ctx.o), "C01", "equals-oracle")

(* a patched document is a document like any other: its diff against b is empty exactly when it Equals b (C05 on a value *)
(* that Patch returned, in both directions)                                                                              *)
TRediff ==
  /\ IsEvent("Rediff") /\ Consume /\ UNCHANGED <<ctx, doc, rest, status>>
  /\ Judge("C05") => CheckK(Rec.st = "ok" /\ ((Rec.n1 = 0) <=> Rec.eq) /\ ((Rec.n2 = 0) <=> Rec.eq), "C05", "patched-document-rediff")

(* the same statement on one set of live values: the diff applied to the very a it was computed from *)
TSame ==
  /\ IsEvent("Same") /\ Consume /\ UNCHANGED <<ctx, doc, rest, status>>
  /\ Judge("C01") => CheckK(Rec.res.st = "ok" /\ Rec.eq.st = "ok" /\ Rec.eq.bool, "C01", "same-values")

(* ---- C05: the diff is empty exactly when Equals holds ----------------------- *)
TEqualsAB ==
  /\ IsEvent("EqualsAB") /\ Consume /\ UNCHANGED <<ctx, doc, rest, status>>
  /\ Judge("C05") =>
       /\ Check(Rec.res.st = "ok", "C05", "equals-call")
       /\ Rec.res.st = "ok" =>
            IF (ctx.d = <<>>) <=> Rec.res.bool THEN TRUE
            ELSE IF /\ "diff-ignores-precision" \in KnownDevs /\ ctx.o.eps > 0
                    \* what the code does: Diff compares numbers exactly, Equals within eps
                    /\ Rec.res.bool = Eq(ctx.a, ctx.b, ctx.o)
                    /\ (ctx.d = <<>>) <=> Eq(ctx.a, ctx.b, [ctx.o EXCEPT !.eps = 0])
                 THEN PrintT(<<"JDV-KNOWN", Rec.sess, "C05", "diff-ignores-precision">>)
            ELSE CheckK(FALSE, "C05", "empty-iff-equal")
       /\ Rec.res.st = "ok" => Note(Rec.res.bool = Eq(ctx.a, ctx.b, ctx.o), "C05", "equals-oracle")

TEnd ==
  /\ IsEvent("End") /\ Consume
  /\ doc' = Void /\ rest' = <<>> /\ status' = "idle" /\ ctx' = NoCtx

Next ==
  \/ TBegin \/ TDiff \/ TTarget
  \/ TStepOk \/ TStepErr \/ TStepAmb \/ TStepKnown \/ TStepMismatch \/ TStepAfter
  \/ TEquals \/ TEqualsAB \/ TSame \/ TRediff \/ TEnd
  \/ (Done /\ UNCHANGED <<doc, rest, status, ctx>>)

Spec == Init /\ [][Next]_vars
=============================================================================
