------------------------------ MODULE Carrier ------------------------------
(***************************************************************************)
(* Documents travelling through a carrier (C16).  The specification        *)
(* contributes the document universe (Universe!YamlDocs) and the protocols *)
(* below; encoders and decoders are uninterpreted lossless channels - YAML *)
(* and JSON syntax is not modelled (DESIGN.md section 6).                  *)
(***************************************************************************)
EXTENDS Integers, Sequences, TLC

Carriers == {"json", "yaml"}
(* a leg: the document is written by one carrier's writer and read by a reader *)
Legs == { <<"yaml", "yaml">>,      \* n.Yaml() read by ReadYamlString
          <<"json", "json">>,      \* n.Json() read by ReadJsonString
          <<"json", "yaml">> }     \* n.Json() read by ReadYamlString (JSON is YAML)
Protocols == { <<"lib", l>> : l \in Legs } \cup { <<"cli", "json2yaml;yaml2json">>, <<"cli", "-yaml diff;-yaml -p">> }

VARIABLES payload, hops
Send(doc) == payload = doc /\ hops = 0
Hop == hops < 2 /\ payload' = payload /\ hops' = hops + 1        \* a lossless channel: the payload is unchanged
Lossless == [][payload' = payload]_<<payload, hops>>
=============================================================================
