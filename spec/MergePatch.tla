----------------------------- MODULE MergePatch -----------------------------
(***************************************************************************)
(* RFC 7386: the MergePatch function transcribed from the RFC's            *)
(* pseudocode (the oracle of C11, C12, C18), and what jd's merge reader    *)
(* (v2/diff_read.go:468-514) is meant to produce: one merge hunk per leaf. *)
(*                                                                         *)
(*   define MergePatch(Target, Patch):                                     *)
(*     if Patch is an Object:                                              *)
(*       if Target is not an Object: Target = {}                           *)
(*       for each Name/Value pair in Patch:                                *)
(*         if Value is null: remove the Name/Value pair from Target        *)
(*         else: Target[Name] = MergePatch(Target[Name], Value)            *)
(*       return Target                                                     *)
(*     else: return Patch                                                  *)
(***************************************************************************)
EXTENDS Patch

RECURSIVE MergePatchD(_, _, _, _)
(* dev: named deviations of the code (known_findings.json); root: TRUE at the top of the patch document *)
MergePatchD(target, patch, dev, root) ==
  IF IsObj(patch) THEN
    IF Keys(patch) = {} /\ "merge-empty-object-replaces" \in dev THEN
         \* what the code does: {} at the root is read as the empty diff, {} below it as "write {}"
         IF root THEN target ELSE EmptyObj
    ELSE
    LET t0   == IF IsObj(target) THEN target ELSE EmptyObj
        dels == {key \in Keys(patch) : IsNull(patch.v[key])}
        sets == Keys(patch) \ dels
    IN Obj([key \in (Keys(t0) \cup sets) \ dels |->
              IF key \in sets
              THEN MergePatchD(IF HasKey(t0, key) THEN t0.v[key] ELSE Void, patch.v[key], dev, FALSE)
              ELSE t0.v[key]])
  ELSE IF IsNull(patch) /\ root /\ "merge-root-null-deletes" \in dev THEN Void   \* the code reads every null as "delete"
  ELSE patch

MergePatch(target, patch) == MergePatchD(target, patch, {}, TRUE)

(* the merge hunks an ideal reader produces for a patch document: one per leaf *)
MHunk(p, x) == Hunk(TRUE, p, <<>>, <<>>, <<x>>, <<>>)
RECURSIVE MergeHunksAt(_, _)
MergeHunksAt(p, n) ==
  IF IsObj(n) /\ Keys(n) # {} THEN
       LET ks == SetToSeq(Keys(n))
           RECURSIVE F(_)
           F(i) == IF i > Len(ks) THEN <<>> ELSE MergeHunksAt(Append(p, PKey(ks[i])), n.v[ks[i]]) \o F(i + 1)
       IN F(1)
  ELSE IF IsNull(n) /\ p # <<>> THEN <<MHunk(p, Void)>>
  ELSE <<MHunk(p, n)>>
MergeHunks(n) == MergeHunksAt(<<>>, n)

(* what jd's reader actually produces (v2/diff_read.go:468-514): {} at the root is the empty diff, *)
(* every null - also at the root - becomes void; the order of the hunks is not modelled             *)
RECURSIVE CodeMergeHunksAt(_, _)
CodeMergeHunksAt(p, n) ==
  IF IsObj(n) /\ Keys(n) # {} THEN
       LET ks == SetToSeq(Keys(n))
           RECURSIVE F(_)
           F(i) == IF i > Len(ks) THEN <<>> ELSE CodeMergeHunksAt(Append(p, PKey(ks[i])), n.v[ks[i]]) \o F(i + 1)
       IN F(1)
  ELSE IF IsNull(n) THEN <<MHunk(p, Void)>>
  ELSE <<MHunk(p, n)>>
CodeMergeHunks(n) == IF n = EmptyObj THEN <<>> ELSE CodeMergeHunksAt(<<>>, n)

(* jd's RenderMerge (v2/diff_write.go:271-291): apply the merge hunks to the void document, void as null *)
VoidToNull(h) == [h EXCEPT !.add = [i \in DOMAIN h.add |-> IF IsVoid(h.add[i]) THEN Null ELSE h.add[i]]]
RenderMergeModel(d) ==
  IF d = <<>> THEN EmptyObj
  ELSE IF \E i \in DOMAIN d : ~d[i].merge THEN Err
  ELSE ApplyAll(Void, [i \in DOMAIN d |-> VoidToNull(d[i])])
=============================================================================
