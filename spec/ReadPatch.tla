----------------------------- MODULE ReadPatch -----------------------------
(***************************************************************************)
(* jd's JSON Patch reader (v2/diff_read.go:235-456, as repaired): the      *)
(* op-grouping machine that turns a sequence of RFC 6902 operations into   *)
(* hunks.  State: the remaining ops, the hunks read so far, an error flag. *)
(* One step reads one element: optional context inference from up to three *)
(* ops (six cases, named as in the code's comments), then a test/remove    *)
(* pair or an add, then coalescing with the previous hunk on the same      *)
(* path.  The reader is a deliberate SUBSET reader: anything else is an    *)
(* error.  C10 on the model: whenever the hunks this reader produces apply *)
(* (Patch.tla), the RFC 6902 evaluation of the ops applies with the same   *)
(* result (MCReadPatch.tla checks it over the variation operators).        *)
(***************************************************************************)
EXTENDS JsonPatch

(* pointer -> path: a token that is a canonical index is read as an index, "-" as -1;    *)
(* the weird number-like keys ("01", "+1") are also read as numbers by strconv.Atoi -    *)
(* their value is not modelled: ReadableTok excludes them                                *)
ReadableTok(t) == t.i >= 0 \/ t.i = -2 \/ (KeyClass(t.s) \notin {"weird", "num"} /\ t.s \notin {"00", "01", "02", "03", "04", "05"})
ElemOfTok(t) == IF t.i >= 0 THEN PIdx(t.i) ELSE IF t.i = -2 THEN PIdx(-1) ELSE PKey(t.s)
PathOfPtr(p) == [i \in DOMAIN p |-> ElemOfTok(p[i])]
Readable(ops) == \A i \in DOMAIN ops : ops[i].wf /\ \A j \in DOMAIN ops[i].path : ReadableTok(ops[i].path[j])

ValOf(o) == IF o.value.k = "N" THEN Null ELSE o.value         \* a missing "value" member decodes to nil -> null
LastIdx(o) == IF o.path # <<>> /\ ElemOfTok(LastP(o.path)).k = "idx" THEN ElemOfTok(LastP(o.path)).v ELSE -99
HasIdx(o) == o.path # <<>> /\ ElemOfTok(LastP(o.path)).k = "idx"

(* ---- context inference: returns [ok, skip, before, after] ------------------------- *)
(* skip = how many leading ops were consumed as context; before / after = <<>> when nothing was set *)
Ctx(ok, skip, bf, af) == [ok |-> ok, skip |-> skip, before |-> bf, after |-> af]
NoCtxSet == Ctx(TRUE, 0, <<>>, <<>>)
VoidCtx  == Ctx(TRUE, 0, <<Void>>, <<Void>>)

InferContext(p) ==          \* p: the remaining ops, p[1].op = "test"
  IF Len(p) = 1 THEN VoidCtx
  ELSE IF ~HasIdx(p[1]) \/ ~HasIdx(p[2]) THEN NoCtxSet                                   \* "Not an array"
  ELSE LET f == LastIdx(p[1])  s == LastIdx(p[2]) IN
    IF f = s /\ p[2].op \in {"replace", "remove"} THEN VoidCtx                            \* no before or after context
    ELSE IF f = s /\ p[2].op = "add" THEN Ctx(TRUE, 1, <<Void>>, <<ValOf(p[1])>>)         \* after context with add
    ELSE IF f = s - 1 /\ p[2].op = "add" THEN Ctx(TRUE, 1, <<ValOf(p[1])>>, <<Void>>)     \* before context with add
    ELSE IF Len(p) = 2 THEN NoCtxSet
    ELSE IF ~HasIdx(p[3]) THEN Ctx(FALSE, 0, <<>>, <<>>)                                  \* "expected path for array"
    ELSE LET t == LastIdx(p[3]) IN
      IF p[2].op = "test" /\ p[3].op \in {"test", "add"} /\ t <= s THEN Ctx(TRUE, 2, <<ValOf(p[1])>>, <<ValOf(p[2])>>)   \* before and after
      ELSE IF p[2].op = "test" /\ p[3].op \in {"replace", "remove"} /\ f > s THEN Ctx(TRUE, 1, <<Void>>, <<ValOf(p[1])>>) \* after with remove
      ELSE IF p[2].op = "test" /\ p[3].op \in {"replace", "remove"} /\ f < s THEN Ctx(TRUE, 1, <<ValOf(p[1])>>, <<Void>>) \* before with remove
      ELSE NoCtxSet

(* ---- one element: [ok, hunk, rest] ---------------------------------------------------- *)
Elem(ok, h, r) == [ok |-> ok, hunk |-> h, rest |-> r]
BadElem1 == Elem(FALSE, Hunk(FALSE, <<>>, <<>>, <<>>, <<>>, <<>>), <<>>)

ReadElement(p) ==
  IF p = <<>> THEN BadElem1
  ELSE
    LET c == IF p[1].op = "test" THEN InferContext(p) ELSE NoCtxSet
        q == SubSeq(p, c.skip + 1, Len(p))
    IN IF ~c.ok \/ q = <<>> THEN BadElem1
       ELSE LET o == q[1] IN
         CASE o.op = "test" ->
                IF Len(q) = 1 \/ q[2].op # "remove" \/ q[2].path # o.path \/ ValOf(q[2]) # ValOf(o) THEN BadElem1
                ELSE Elem(TRUE, Hunk(FALSE, PathOfPtr(o.path), c.before, <<ValOf(o)>>, <<>>, c.after), SubSeq(q, 3, Len(q)))
           [] o.op = "add" ->
                Elem(TRUE, Hunk(FALSE, PathOfPtr(o.path), c.before, <<>>, <<ValOf(o)>>, c.after), SubSeq(q, 2, Len(q)))
           [] OTHER -> BadElem1

HasOwnContext(h) == (\E i \in DOMAIN h.before : ~IsVoid(h.before[i])) \/ (\E j \in DOMAIN h.after : ~IsVoid(h.after[j]))
IsAppend(h) == h.path # <<>> /\ h.path[Len(h.path)] = PIdx(-1)

Coalesce(out, e) ==
  \* a removal after an addition starts a new hunk: RFC 6902 applies operations in sequence, so it removes what was just added
  IF out # <<>> /\ out[Len(out)].path = e.path /\ ~HasOwnContext(e) /\ ~(e.remove # <<>> /\ out[Len(out)].add # <<>>) THEN
       LET last == out[Len(out)]
           merged == [last EXCEPT !.remove = last.remove \o e.remove,
                                  !.add = IF IsAppend(e) THEN last.add \o e.add ELSE e.add \o last.add]
       IN SubSeq(out, 1, Len(out) - 1) \o <<merged>>
  ELSE Append(out, e)

(* the context tests of a hunk must address the neighbours of the edit: the element before its index and the element after *)
(* the values it removes (checkPatchContext): the hunk keeps only their values                                              *)
ContextInPlace(ops, h) ==
  IF h.path = <<>> \/ h.path[Len(h.path)].k # "idx" \/ h.path[Len(h.path)].v < 0 THEN TRUE
  ELSE LET base == h.path[Len(h.path)].v IN
       \A i \in DOMAIN ops :
          (ops[i].op = "test" /\ ~(i < Len(ops) /\ ops[i + 1].op = "remove" /\ ops[i + 1].path = ops[i].path)) =>
             LET q == PathOfPtr(ops[i].path) IN
             /\ Len(q) = Len(h.path) /\ SubSeq(q, 1, Len(q) - 1) = SubSeq(h.path, 1, Len(h.path) - 1)
             /\ q[Len(q)].k = "idx" /\ q[Len(q)].v \in {base - 1, base + Len(h.remove)}

(* grp: for every hunk of out, the operations it was read from *)
RECURSIVE ReadFrom(_, _, _)
ReadFrom(p, out, grp) ==
  IF p = <<>> THEN (IF \A i \in DOMAIN out : ContextInPlace(grp[i], out[i]) THEN [ok |-> TRUE, diff |-> out] ELSE [ok |-> FALSE, diff |-> <<>>])
  ELSE LET e == ReadElement(p) IN
       IF ~e.ok THEN [ok |-> FALSE, diff |-> <<>>]
       ELSE LET used == SubSeq(p, 1, Len(p) - Len(e.rest))
                merged == Len(Coalesce(out, e.hunk)) = Len(out) /\ out # <<>>
            IN ReadFrom(e.rest, Coalesce(out, e.hunk),
                        IF merged THEN [grp EXCEPT ![Len(grp)] = grp[Len(grp)] \o used] ELSE Append(grp, used))
ReadOps(ops) == ReadFrom(ops, <<>>, <<>>)
=============================================================================
