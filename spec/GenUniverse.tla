---------------------------- MODULE GenUniverse ----------------------------
(* Exports the exhaustive document families as ndjson (one entry per line:  *)
(* the document, its perturbations, its permutations).  Run by ./check gen. *)
EXTENDS Universe, Json, IOUtils
FieldOrder == [k |-> 0, v |-> 0]   \* must stay the first definition of a root module (JsonValue.tla)

Dir == IOEnv.JDV_OUT
Out(name, S) == ndJsonSerialize(Dir \o "/" \o name \o ".ndjson", Export(S))

ASSUME Out("scalarr_4_3", ScalArr(4, 3))
ASSUME Out("scalarr_5_3", ScalArr(5, 3))
ASSUME Out("scalarr_7_2", ScalArr(7, 2))
ASSUME Out("nestarr_2", NestArr(2))
ASSUME Out("nestarr_3", NestArr(3))
ASSUME Out("obj_2", ObjFam(2, ObjVals))
ASSUME Out("obj_3", ObjFam(3, {N1, N2, S0, EmptyArr, Arr(<<N1>>), O1("k0", N1)}))
ASSUME Out("deep", Deep)
ASSUME Out("keyed_2", Keyed(2))
ASSUME Out("keyed_3", Keyed(3))
ASSUME Out("keyeddeep", KeyedDeep)
ASSUME Out("confusable", Confusable)
ASSUME Out("deepobj", DeepObj)
ASSUME Out("keyed2k", Keyed2K)
ASSUME Out("mergedocs", MergeDocs)
ASSUME Out("mergedeep", MergeDeep)
ASSUME Out("yamldocs", YamlDocs)
ASSUME Out("deeparr", DeepArr)
ASSUME Out("strdocs", StrDocs)
ASSUME Out("keyednull", KeyedNull)
ASSUME Out("mergenull", MergeNull)
ASSUME Out("objptr", ObjPtr)
ASSUME Out("ptrdeep", PtrDeep)
=============================================================================
