------------------------------- MODULE MCText -------------------------------
(***************************************************************************)
(* Design-level model of the native text format (C02, C13):                *)
(*  - the reader automaton is total: every line sequence up to MaxLines    *)
(*    over the line kinds ends in accept or reject (never stuck), and a    *)
(*    rejected prefix stays rejected;                                      *)
(*  - Read(Render(d)) = d and rendering is idempotent for every sequence   *)
(*    of up to two well-formed hunks of the sample (strict before merge).  *)
(* The reader runs as a machine: one line per step.                        *)
(***************************************************************************)
EXTENDS DiffText, Universe
FieldOrder == [k |-> 0, v |-> 0]   \* must stay the first definition of a root module (JsonValue.tla)
CONSTANT MaxLines
VARIABLES lines, pos, rs, src
tvars == <<lines, pos, rs, src, doc, rest, status>>

IdObj == [x \in {"id"} |-> N1]
Kinds ==
  {Line("^", p) : p \in {Void, MergeMeta, EmptyObj, N1, Invalid}}
  \cup {Line("@", p) : p \in {EmptyArr, Arr(<<Str("k0")>>), Arr(<<Num(0)>>), Arr(<<EmptyObj>>), Arr(<<EmptyArr>>), Arr(<<Obj(IdObj), Str("v")>>), N1, Void, Invalid}}
  \cup {Line(h, Void) : h \in {"[", "]"}}
  \cup {Line(h, p) : h \in {" ", "-", "+"}, p \in {Void, N1, Invalid}}
  \cup {Line("x", N1)}

SampleHunks ==
  { Hunk(m, p, bf, rm, ad, af) :
      m \in BOOLEAN, p \in {<<>>, <<PKey("k0")>>, <<PIdx(1)>>, <<PKey("k0"), PSet>>, <<PSetKeys(IdObj), PKey("v")>>},
      bf \in {<<>>, <<Void>>, <<N1>>}, rm \in {<<>>, <<N1>>, <<N1, N2>>}, ad \in {<<>>, <<N2>>, <<S0, N2>>, <<Void>>}, af \in {<<>>, <<Void>>, <<N2>>} }
WF == {h \in SampleHunks : WellFormedHunk(h)}
Firsts  == {h \in WF : h.path \in {<<PIdx(1)>>, <<PKey("k0")>>} /\ Len(h.remove) <= 1}
Seconds == {h \in WF : h.path \in {<<PKey("k0"), PSet>>, <<>>} /\ Len(h.add) <= 1}
Diffs == {<<h>> : h \in WF} \cup {d \in {<<h1, h2>> : h1 \in Firsts, h2 \in Seconds} : WellFormedDiff(d)}

Init ==
  /\ \/ (lines \in TuplesUpTo(Kinds, MaxLines) /\ src = <<>>)
     \/ \E d \in Diffs : (lines = RenderDiff(d) /\ src = d)
  /\ pos = 1 /\ rs = RInit
  /\ doc = Void /\ rest = <<>> /\ status = "idle"
ReadLine ==
  /\ pos <= Len(lines)
  /\ rs' = RStep(rs, lines[pos], {}) /\ pos' = pos + 1 /\ UNCHANGED <<lines, src, doc, rest, status>>
Next == ReadLine
Spec == Init /\ [][Next]_tvars

States == {"INIT", "META", "AT", "BEFORE", "REMOVE", "ADD", "AFTER", "ERR"}
TypeOK == rs.st \in States
ErrSticks == [][rs.st = "ERR" => rs'.st = "ERR"]_tvars
(* the machine and the function agree, and at the end there is a verdict *)
Total == pos = Len(lines) + 1 => (REnd(rs) = ReadLines(lines) /\ REnd(rs).ok \in BOOLEAN)
(* the carrier property on the model: the rendered diff is read back as itself, and re-rendering is the identity *)
CarrierAtEnd == (pos = Len(lines) + 1 /\ src # <<>>) => (REnd(rs).ok /\ REnd(rs).diff = NormDiff(src) /\ RenderDiff(REnd(rs).diff) = lines)
=============================================================================
