-------------------------------- MODULE MCEq --------------------------------
(***************************************************************************)
(* Design-level laws of the equality oracle Eq (C04), checked by TLC for   *)
(* every pair of an exhaustive family and every reading:                   *)
(* reflexive, symmetric, kinds disjoint, set equality invariant under      *)
(* permutation and duplication, bag equality under permutation only,       *)
(* precision monotone in eps, list equality implies set and bag equality.  *)
(***************************************************************************)
EXTENDS Universe
FieldOrder == [k |-> 0, v |-> 0]   \* must stay the first definition of a root module (JsonValue.tla)
VARIABLES x, y
Docs == ScalArr(3, 2) \cup Confusable \cup {Arr(t) : t \in TuplesUpTo({N1, EmptyArr, Arr(<<N1>>), Arr(<<N1, N1>>), O1("k0", N1)}, 2)}
Opts == {NoOpt, [NoOpt EXCEPT !.set = TRUE], [NoOpt EXCEPT !.mset = TRUE], [NoOpt EXCEPT !.eps = 4], [NoOpt EXCEPT !.eps = 8]}
Init == x \in Docs /\ y \in Docs
Next == UNCHANGED <<x, y>>
SetO == [NoOpt EXCEPT !.set = TRUE]
BagO == [NoOpt EXCEPT !.mset = TRUE]
Laws ==
  /\ \A o \in Opts : Eq(x, x, o) /\ (Eq(x, y, o) <=> Eq(y, x, o))
  /\ \A o \in Opts : (x.k # y.k /\ ~(x.k \in {"n", "x"} /\ y.k \in {"n", "x"})) => ~Eq(x, y, o)       \* kinds are disjoint
  /\ Eq(x, y, NoOpt) => (Eq(x, y, SetO) /\ Eq(x, y, BagO))
  /\ Eq(x, y, BagO) => Eq(x, y, SetO)
  /\ Eq(x, y, [NoOpt EXCEPT !.eps = 4]) => Eq(x, y, [NoOpt EXCEPT !.eps = 8])
  /\ IsArr(x) => /\ \A p \in Perms(x) : Eq(x, p, SetO) /\ Eq(x, p, BagO)
                 /\ (x.v # <<>> => (Eq(x, Arr(x.v \o <<x.v[1]>>), SetO) /\ ~Eq(x, Arr(x.v \o <<x.v[1]>>), BagO)))
=============================================================================
