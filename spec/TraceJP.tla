------------------------------ MODULE TraceJP ------------------------------
(***************************************************************************)
(* C09 / C10: JSON Patch (RFC 6902) output and input of jd against the     *)
(* independent evaluator Eval of JsonPatch.tla.                            *)
(* Pass 1 (driver jp):                                                     *)
(*   JpBegin(a,b) Diff(diff) RenderPatch(st,ops) Native(c,res)*            *)
(*   ReadOwn(st,diff) ApplyOwn(res) [Vary] End                             *)
(* Pass 2 (driver jpv), patch documents made by the variation operators:   *)
(*   VBegin(ops) VRead(st,diff) VApply(c,res)* End                         *)
(***************************************************************************)
EXTENDS ReadPatch, TraceCore
FieldOrder == [k |-> 0, v |-> 0]   \* must stay the first definition of a root module (JsonValue.tla)

CONSTANT Props, KnownDevs
VARIABLE ctx
vars == <<shard, l, doc, rest, status, ctx>>
Judge(p) == p \in Props
Keep == UNCHANGED <<doc, rest, status>>

NoCtx == [a |-> Void, b |-> Void, o |-> NoOpt, d |-> <<>>, ops |-> <<>>, rp |-> "none", d2 |-> <<>>, rd |-> "none"]
Init == CoreInit /\ doc = Void /\ rest = <<>> /\ status = "idle" /\ ctx = NoCtx

TBegin == IsEvent("JpBegin") /\ Consume /\ Keep /\ ctx' = [NoCtx EXCEPT !.a = Rec.a, !.b = Rec.b, !.o = Rec.opts]
TDiff  == IsEvent("Diff") /\ Consume /\ Keep /\ ctx' = [ctx EXCEPT !.d = Rec.diff]

TokSame(t1, t2) == t1.i = t2.i /\ (t1.i = -1 => t1.s = t2.s)
PathSame(p, q) == Len(p) = Len(q) /\ \A i \in DOMAIN p : TokSame(p[i], q[i])
OpSame(o1, o2) == o1.op = o2.op /\ PathSame(o1.path, o2.path) /\ (o1.op # "remove" => o1.value = o2.value)
OpsSame(s1, s2) == Len(s1) = Len(s2) /\ \A i \in DOMAIN s1 : OpSame(s1[i], s2[i])

TRender ==
  /\ IsEvent("RenderPatch") /\ Consume /\ Keep
  /\ ctx' = [ctx EXCEPT !.ops = Rec.ops, !.rp = Rec.st]
  /\ Judge("C13") => Check(Rec.st \in {"ok", "err"}, "C13", "renderpatch-crash")
  /\ Judge("C09") =>
       /\ Check(Rec.st \in {"ok", "err"}, "C09", "render-call")
       \* refusal: exactly the inexpressible paths (the weird number-like class may go either way)
       /\ MustRefuse(ctx.d) => Check(Rec.st = "err", "C09", "not-refused")
       /\ ~MayRefuse(ctx.d) => Check(Rec.st = "ok", "C09", "refused-expressible")
       /\ Rec.st = "ok" =>
            /\ Check(Rec.parsed /\ \A i \in DOMAIN Rec.ops : OpWellFormed(Rec.ops[i]), "C09", "malformed-patch")
            /\ LET r == Eval(Rec.ops, ctx.a) IN Check(~IsErr(r) /\ Eq(r, ctx.b, ctx.o), "C09", "rfc-eval-on-a")
            \* writer conformance (informational)
            /\ Note(DiffOpsOK(ctx.d) /\ OpsSame(Rec.ops, DiffToOps(ctx.d)), "C09", "writer-model")

TNative ==
  /\ IsEvent("Native") /\ Consume /\ Keep /\ UNCHANGED ctx
  /\ (Judge("C09") /\ ctx.rp = "ok" /\ Rec.res.st = "ok") =>
        LET r == Eval(ctx.ops, Rec.c) IN
        /\ Check(~IsErr(r) /\ r = Rec.res.doc, "C09", <<"native-applies-rfc-differs", Rec.t>>)
  \* isolated form: the native side is the specification's interpreter (attribution only)
  /\ (Judge("C09") /\ ctx.rp = "ok") =>
        LET m == ApplyAll(Rec.c, ctx.d)  r == Eval(ctx.ops, Rec.c) IN
        Note(Bad(m) \/ (~IsErr(r) /\ r = m), "C09", "isolated")

TReadOwn ==
  /\ IsEvent("ReadOwn") /\ Consume /\ Keep
  /\ ctx' = [ctx EXCEPT !.d2 = Rec.diff, !.rd = Rec.st]
  /\ (Judge("C10") /\ Readable(ctx.ops) /\ Rec.st \in {"ok", "err"}) =>
        LET m == ReadOps(ctx.ops) IN Note((Rec.st = "ok") = m.ok /\ (m.ok => m.diff = Rec.diff), "C10", "reader-model")
  /\ Judge("C13") => Check(Rec.st \in {"ok", "err"}, "C13", "readpatch-crash")
  /\ Judge("C10") => Check(Rec.st = "ok", "C10", "own-output-rejected")

TApplyOwn ==
  /\ IsEvent("ApplyOwn") /\ Consume /\ Keep /\ UNCHANGED ctx
  /\ Judge("C10") => Check(Rec.res.st = "ok" /\ Eq(Rec.res.doc, ctx.b, ctx.o), "C10", "own-output-does-not-reproduce-b")

TVary == IsEvent("Vary") /\ Consume /\ Keep /\ UNCHANGED ctx

(* ---- pass 2 -------------------------------------------------------------------- *)
TVBegin ==
  /\ IsEvent("VBegin") /\ Consume /\ Keep
  /\ ctx' = [NoCtx EXCEPT !.ops = Rec.ops]
TVRead ==
  /\ IsEvent("VRead") /\ Consume /\ Keep
  /\ ctx' = [ctx EXCEPT !.d2 = Rec.diff, !.rd = Rec.st]
  \* reader conformance: the op-grouping machine of ReadPatch.tla predicts accept / reject and the hunks (informational)
  /\ (Judge("C10") /\ Readable(ctx.ops) /\ Rec.st \in {"ok", "err"}) =>
        LET m == ReadOps(ctx.ops) IN Note((Rec.st = "ok") = m.ok /\ (m.ok => m.diff = Rec.diff), "C10", "reader-model")
  /\ Judge("C13") => Check(Rec.st \in {"ok", "err"}, "C13", "readpatch-crash")
TVApply ==
  /\ IsEvent("VApply") /\ Consume /\ Keep /\ UNCHANGED ctx
  /\ Judge("C13") => Check(Rec.res.st \in {"ok", "err"}, "C13", "patch-crash")
  /\ (Judge("C10") /\ Rec.res.st = "ok") =>
        LET r == Eval(ctx.ops, Rec.c) IN
        Check(~IsErr(r) /\ r = Rec.res.doc, "C10", IF IsErr(r) THEN "more-permissive-than-rfc" ELSE "differs-from-rfc")
  /\ Judge("C10") => Check(Rec.res.st \in {"ok", "err"}, "C10", "patch-crash")
  \* isolated form: the reader alone, applied by the specification's interpreter
  /\ Judge("C10") =>
        LET m == ApplyAll(Rec.c, ctx.d2)  r == Eval(ctx.ops, Rec.c) IN
        Note(Bad(m) \/ (~IsErr(r) /\ r = m), "C10", "isolated")

TEnd == IsEvent("End") /\ Consume /\ Keep /\ ctx' = NoCtx

Next == TBegin \/ TDiff \/ TRender \/ TNative \/ TReadOwn \/ TApplyOwn \/ TVary
        \/ TVBegin \/ TVRead \/ TVApply \/ TEnd \/ (Done /\ UNCHANGED <<doc, rest, status, ctx>>)
Spec == Init /\ [][Next]_vars
=============================================================================
