---------------------------- MODULE MCReadPatch ----------------------------
(***************************************************************************)
(* Design-level model of C10: the op-grouping reader (ReadPatch.tla) runs  *)
(* as a machine, one element per step, over jd's own patches and over      *)
(* every variation the operators of JsonPatch.tla produce from them;       *)
(* at the end, for every target: if the hunks apply, the RFC 6902          *)
(* evaluation of the same ops applies with the same result ("never more    *)
(* permissive or different"); own output read back reproduces b.           *)
(***************************************************************************)
EXTENDS Diff, ReadPatch, Universe
FieldOrder == [k |-> 0, v |-> 0]   \* must stay the first definition of a root module (JsonValue.tla)
VARIABLES ops, remaining, out, failed, aux, grp, checked
rvars == <<ops, remaining, out, failed, aux, grp, checked, doc, rest, status>>

Docs == ScalArr(3, 2) \cup {Arr(t) : t \in TuplesUpTo({N1, Arr(<<N1>>), Arr(<<N1, N2>>), O1("k0", N1)}, 2)}
        \cup {O1("k0", Arr(t)) : t \in TuplesUpTo({N1, N2}, 2)}

GroupsOf(d) == [i \in DOMAIN d |-> HunkToOps(d[i])]

Init ==
  \E a \in Docs, b \in Docs :
    LET d == RefDiff(a, b, NoOpt) IN
    /\ DiffOpsOK(d) /\ d # <<>>
    /\ \E g \in Variations(GroupsOf(d), N9) :
         /\ ops = Flatten(g)
         /\ aux = [a |-> a, b |-> b, own |-> (g = GroupsOf(d))]
    /\ remaining = ops /\ out = <<>> /\ failed = FALSE /\ grp = <<>> /\ checked = FALSE
    /\ doc = Void /\ rest = <<>> /\ status = "idle"

ReadOne ==
  /\ remaining # <<>> /\ ~failed
  /\ LET e == ReadElement(remaining) IN
     IF e.ok THEN
          LET used == SubSeq(remaining, 1, Len(remaining) - Len(e.rest))
              merged == out # <<>> /\ Len(Coalesce(out, e.hunk)) = Len(out)
          IN /\ remaining' = e.rest /\ out' = Coalesce(out, e.hunk) /\ failed' = FALSE
             /\ grp' = IF merged THEN [grp EXCEPT ![Len(grp)] = grp[Len(grp)] \o used] ELSE Append(grp, used)
     ELSE failed' = TRUE /\ UNCHANGED <<remaining, out, grp>>
  /\ UNCHANGED <<ops, aux, checked, doc, rest, status>>
(* the last step of ReadPatchString: every context test addresses a neighbour of its hunk's edit *)
CheckContexts ==
  /\ remaining = <<>> /\ ~failed /\ ~checked
  /\ checked' = TRUE /\ failed' = ~(\A i \in DOMAIN out : ContextInPlace(grp[i], out[i]))
  /\ UNCHANGED <<ops, remaining, out, aux, grp, doc, rest, status>>
Next == ReadOne \/ CheckContexts
Spec == Init /\ [][Next]_rvars

Finished == (remaining = <<>> /\ checked) \/ failed
MachineIsFunction == Finished => (failed = ~ReadOps(ops).ok /\ (~failed => out = ReadOps(ops).diff))
Targets == {aux.a, aux.b} \cup (IF IsArr(aux.a) /\ Len(aux.a.v) <= 2 THEN Perturb(aux.a) ELSE {})
NeverMorePermissive ==
  (Finished /\ ~failed) =>
     \A c \in Targets :
        LET m == ApplyAll(c, out)  r == Eval(ops, c) IN
        (~Bad(m)) => (~IsErr(r) /\ r = m)
OwnOutput == (Finished /\ aux.own) => (~failed /\ ApplyAll(aux.a, out) = aux.b)
=============================================================================
