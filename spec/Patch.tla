------------------------------- MODULE Patch -------------------------------
(***************************************************************************)
(* The hunk-application machine of jd (v2): what a diff MEANS.             *)
(*                                                                         *)
(* Code counterpart: patchAll (v2/patch_common.go) looping over hunks and  *)
(* the per-type patch methods in v2/{list,object,set,multiset}.go and      *)
(* patch() in v2/patch_common.go.                                          *)
(*                                                                         *)
(* A hunk is [merge, path, before, remove, add, after]; a path element is  *)
(* [k |-> "key"|"idx"|"set"|"mset"|"setkeys"|"msetkeys", v |-> payload].   *)
(*                                                                         *)
(* The interpreter is the function ApplyHunk(doc, h); the machine below    *)
(* (variables doc, rest, status) applies a hunk sequence one hunk per      *)
(* step with one named action per case the code distinguishes.  The trace  *)
(* specifications reuse these actions to validate what the real Patch did. *)
(***************************************************************************)
EXTENDS JsonValue

PKey(s)      == [k |-> "key", v |-> s]
PIdx(i)      == [k |-> "idx", v |-> i]
PSet         == [k |-> "set", v |-> 0]
PMset        == [k |-> "mset", v |-> 0]
PSetKeys(f)  == [k |-> "setkeys", v |-> f]
PMsetKeys(f) == [k |-> "msetkeys", v |-> f]

Hunk(m, p, bf, rm, ad, af) ==
  [merge |-> m, path |-> p, before |-> bf, remove |-> rm, add |-> ad, after |-> af]

(* pseudo results *)
Err == [k |-> "E", v |-> 0]   \* the hunk does not apply here
Amb == [k |-> "M", v |-> 0]   \* the semantics does not fix the outcome (two members match the keys)
IsErr(r) == r.k = "E"
IsAmb(r) == r.k = "M"
Bad(r)   == r.k \in {"E", "M"}

NonVoidSeq(s) == SelectSeq(s, LAMBDA x : ~IsVoid(x))

LastKind(h) == IF h.path = <<>> THEN "root" ELSE h.path[Len(h.path)].k

(***************************************************************************)
(* Whole-value replacement at the addressed location (path exhausted).     *)
(* object.go:225-235, list.go:324-339, set.go:194-204, patch_common.go:45  *)
(***************************************************************************)
Replace(n, h) ==
  IF Len(h.remove) > 1 \/ Len(h.add) > 1 THEN Err
  ELSE IF n # Single(h.remove) THEN Err
  ELSE Single(h.add)

(***************************************************************************)
(* List splice with context (list.go:360-415).  l is the tuple, i the      *)
(* 0-based index of the hunk.                                              *)
(***************************************************************************)
CtxBeforeOK(bf, l, i) ==
  \A j \in DOMAIN bf :
    LET pos == i - (Len(bf) - j + 1)        \* 0-based position the line speaks about
    IN IF pos < 0 THEN pos = -1 /\ IsVoid(bf[j])
       ELSE pos < Len(l) /\ l[pos + 1] = bf[j]

CtxAfterOK(af, l, e) ==                      \* e: 0-based index of the first element after the removed run
  \A j \in DOMAIN af :
    LET pos == e + (j - 1)
    IN IF pos >= Len(l) THEN pos = Len(l) /\ IsVoid(af[j])
       ELSE l[pos + 1] = af[j]

Splice(l, i, h) ==
  LET r == Len(h.remove) IN
  IF i = -1 THEN      \* append: nothing can be removed, and context other than the boundary marker cannot be checked
       IF r > 0 \/ (\E j \in DOMAIN h.before : ~IsVoid(h.before[j])) \/ (\E j \in DOMAIN h.after : ~IsVoid(h.after[j]))
       THEN Err ELSE Arr(l \o h.add)
  ELSE IF i < 0 \/ i + r > Len(l) THEN Err
  ELSE IF SubSeq(l, i + 1, i + r) # h.remove THEN Err
  ELSE IF ~CtxBeforeOK(h.before, l, i) THEN Err
  ELSE IF ~CtxAfterOK(h.after, l, i + r) THEN Err
  ELSE Arr(SubSeq(l, 1, i) \o h.add \o SubSeq(l, i + r + 1, Len(l)))

(***************************************************************************)
(* Set and bag hunks (set.go:227-283, multiset.go:188-226).  The result is *)
(* an array in SOME order; it is compared with the implementation under    *)
(* the hunk's reading.  We keep untouched members in place (first          *)
(* occurrence), drop removed ones and append added ones.                   *)
(***************************************************************************)
RECURSIVE DedupBy(_, _, _)
DedupBy(l, seen, rd) ==
  IF l = <<>> THEN <<>>
  ELSE LET c == Canon(Head(l), rd) IN
       IF c \in seen THEN DedupBy(Tail(l), seen, rd)
       ELSE <<Head(l)>> \o DedupBy(Tail(l), seen \cup {c}, rd)

SetHunk(l, h) ==
  LET C(x) == Canon(x, "set")
      cur == {C(l[i]) : i \in DOMAIN l}
      rem == {C(h.remove[i]) : i \in DOMAIN h.remove}
  IN IF \E i \in DOMAIN h.remove : IsVoid(h.remove[i]) THEN Err
     ELSE IF \E i \in DOMAIN h.add : IsVoid(h.add[i]) THEN Err
     ELSE IF ~(rem \subseteq cur) THEN Err
     ELSE LET kept == SelectSeq(DedupBy(l, {}, "set"), LAMBDA m : C(m) \notin rem)
              keptC == {C(kept[i]) : i \in DOMAIN kept}
          IN Arr(kept \o DedupBy(h.add, keptC, "set"))

Count(c, s, rd) == Cardinality({i \in DOMAIN s : Canon(s[i], rd) = c})

RECURSIVE RemoveBag(_, _)
\* remove one occurrence (the first) of every element of rm from l; caller has checked counts
RemoveBag(l, rm) ==
  IF rm = <<>> THEN l
  ELSE LET c == Canon(Head(rm), "mset")
           i == CHOOSE j \in DOMAIN l : Canon(l[j], "mset") = c /\ \A j2 \in 1..(j-1) : Canon(l[j2], "mset") # c
       IN RemoveBag(SeqRemoveAt(l, i), Tail(rm))

BagHunk(l, h) ==
  LET C(x) == Canon(x, "mset")
      rem == {C(h.remove[i]) : i \in DOMAIN h.remove}
  IN IF \E i \in DOMAIN h.remove : IsVoid(h.remove[i]) THEN Err
     ELSE IF \E i \in DOMAIN h.add : IsVoid(h.add[i]) THEN Err
     ELSE IF \E c \in rem : Count(c, h.remove, "mset") > Count(c, l, "mset") THEN Err
     ELSE Arr(RemoveBag(l, h.remove) \o h.add)

(***************************************************************************)
(* Keyed set member (set.go:205-221): the members of l that are objects    *)
(* carrying every key of the path element with an equal value.             *)
(***************************************************************************)
KeyedMatches(l, keyobj) ==
  {i \in DOMAIN l :
     /\ IsObj(l[i])
     \* equal under the reading in force on a keyed path: SetKeys reads every array, also one inside a key value, as a set
     /\ \A kk \in DOMAIN keyobj : HasKey(l[i], kk) /\ Canon(l[i].v[kk], "set") = Canon(keyobj[kk], "set")}

(***************************************************************************)
(* Strict strategy.                                                        *)
(***************************************************************************)
RECURSIVE PS(_, _, _, _)
PS(n, p, h, dev) ==
  IF p = <<>> THEN Replace(n, h)
  ELSE
    LET e == Head(p)  rest == Tail(p) IN
    CASE e.k = "key" ->
           IF ~IsObj(n) THEN Err
           ELSE LET child == IF HasKey(n, e.v) THEN n.v[e.v] ELSE Void
                    r == PS(child, rest, h, dev)
                IN IF Bad(r) THEN r
                   ELSE IF IsVoid(r) THEN ObjDel(n, e.v)
                   ELSE ObjPut(n, e.v, r)
      [] e.k = "idx" ->
           IF ~IsArr(n) THEN Err
           ELSE IF rest = <<>> THEN Splice(n.v, e.v, h)
           ELSE IF e.v < 0 \/ e.v >= Len(n.v) THEN Err
           ELSE LET r == PS(n.v[e.v + 1], rest, h, dev)
                IN IF Bad(r) THEN r
                   ELSE IF IsVoid(r) THEN Err
                   ELSE Arr(SeqReplace(n.v, e.v + 1, r))
      [] e.k = "set" ->
           IF rest # <<>> \/ ~IsArr(n) THEN Err ELSE SetHunk(n.v, h)
      [] e.k = "mset" ->
           IF rest # <<>> \/ ~IsArr(n) THEN Err ELSE BagHunk(n.v, h)
      [] e.k = "setkeys" ->
           IF rest = <<>> \/ ~IsArr(n) THEN Err
           ELSE LET M == KeyedMatches(n.v, e.v) IN
                IF M = {} THEN Err
                ELSE IF Cardinality(M) > 1 THEN Amb
                ELSE LET i == CHOOSE j \in M : TRUE
                         r == PS(n.v[i], rest, h, dev)
                     IN IF IsErr(r) /\ "keyed-member-error-discarded" \in dev THEN n
                        ELSE IF Bad(r) THEN r
                        ELSE IF IsVoid(r) THEN Err
                        ELSE Arr(SeqReplace(n.v, i, r))
      [] OTHER -> Err        \* "msetkeys" is not implemented by the patcher

(***************************************************************************)
(* Merge strategy (RFC 7386 leaf write; patch_common.go:28-66,             *)
(* object.go:244-271).  Void = delete.                                     *)
(***************************************************************************)
RECURSIVE PM(_, _, _)
PM(n, p, h) ==
  IF p = <<>> THEN Single(h.add)
  ELSE
    LET e == Head(p)  rest == Tail(p) IN
    IF e.k # "key" THEN Err
    ELSE LET base  == IF IsObj(n) THEN n ELSE EmptyObj
             child == IF HasKey(base, e.v) THEN base.v[e.v]
                      ELSE IF rest = <<>> THEN Void ELSE EmptyObj
             r == PM(child, rest, h)
         IN IF Bad(r) THEN r
            ELSE IF IsVoid(r) THEN ObjDel(base, e.v)
            ELSE ObjPut(base, e.v, r)

MergeShapeOK(h) ==
  /\ Len(h.add) <= 1
  /\ \A i \in DOMAIN h.remove : IsVoid(h.remove[i])
  /\ Len(h.remove) <= 1

(* dev: the set of named deviations (Deviations of the code from this semantics that are
   listed in /verif/known_findings.json) under which the hunk is interpreted; {} = ideal *)
ApplyHunkD(doc, h, dev) ==
  IF h.merge THEN (IF MergeShapeOK(h) THEN PM(doc, h.path, h) ELSE Err)
  ELSE PS(doc, h.path, h, dev)
ApplyHunk(doc, h) == ApplyHunkD(doc, h, {})

RECURSIVE ApplyAll(_, _)
ApplyAll(doc, hs) ==
  IF hs = <<>> THEN doc
  ELSE LET r == ApplyHunk(doc, Head(hs)) IN
       IF Bad(r) THEN r ELSE ApplyAll(r, Tail(hs))

(* documents after each prefix: <<doc_0, doc_1, ...>> stops at the first bad result *)
RECURSIVE ApplyTrace(_, _)
ApplyTrace(doc, hs) ==
  IF hs = <<>> THEN <<doc>>
  ELSE LET r == ApplyHunk(doc, Head(hs)) IN
       IF Bad(r) THEN <<doc, r>> ELSE <<doc>> \o ApplyTrace(r, Tail(hs))

(***************************************************************************)
(* Normal form of a hunk (what survives a text round trip): void is never  *)
(* written in remove, nor in add of a strict hunk.  NormEffect: the        *)
(* normal form has the same effect on every document.                      *)
(***************************************************************************)
NormHunk(h) ==
  [h EXCEPT !.remove = SelectSeq(h.remove, LAMBDA x : ~IsVoid(x)),
            !.add    = IF h.merge THEN h.add ELSE SelectSeq(h.add, LAMBDA x : ~IsVoid(x))]
NormDiff(d) == [i \in DOMAIN d |-> NormHunk(d[i])]
(* hunks compared under a reading of arrays (values a set-mode diff carries are sets) *)
CanonHunk(h, rd) ==
  [h EXCEPT !.before = [i \in DOMAIN h.before |-> Canon(h.before[i], rd)],
            !.remove = [i \in DOMAIN h.remove |-> Canon(h.remove[i], rd)],
            !.add    = [i \in DOMAIN h.add |-> Canon(h.add[i], rd)],
            !.after  = [i \in DOMAIN h.after |-> Canon(h.after[i], rd)]]
CanonDiff(d, rd) == [i \in DOMAIN d |-> CanonHunk(NormHunk(d[i]), rd)]

(***************************************************************************)
(* Frame: everything outside the container a hunk addresses is unchanged.  *)
(* Positions are key / index paths.                                        *)
(***************************************************************************)
RECURSIVE Get(_, _)
Get(n, p) ==       \* Void when the position does not exist
  IF p = <<>> THEN n
  ELSE LET e == Head(p) IN
       CASE e.k = "key" /\ IsObj(n) /\ HasKey(n, e.v) -> Get(n.v[e.v], Tail(p))
         [] e.k = "idx" /\ IsArr(n) /\ e.v >= 0 /\ e.v < Len(n.v) -> Get(n.v[e.v + 1], Tail(p))
         [] OTHER -> Void

RECURSIVE Positions(_)
Positions(n) ==    \* all key/idx paths into n
  {<<>>} \cup
  (CASE IsObj(n) -> UNION {{<<PKey(key)>> \o q : q \in Positions(n.v[key])} : key \in Keys(n)}
     [] IsArr(n) -> UNION {{<<PIdx(i - 1)>> \o q : q \in Positions(n.v[i])} : i \in DOMAIN n.v}
     [] OTHER -> {})

IsPrefixOf(p, q) == Len(p) <= Len(q) /\ SubSeq(q, 1, Len(p)) = p
\* the plain key/idx prefix of a hunk path (stops at the first set-like element)
RECURSIVE PlainPrefix(_)
PlainPrefix(p) ==
  IF p = <<>> THEN <<>>
  ELSE IF Head(p).k \in {"key", "idx"} THEN <<Head(p)>> \o PlainPrefix(Tail(p)) ELSE <<>>
\* container addressed by a strict hunk: the plain prefix minus its last element when the
\* whole path is plain (the edit happens inside the parent), else the plain prefix itself
Container(h) ==
  LET pp == PlainPrefix(h.path) IN
  IF Len(pp) = Len(h.path) /\ pp # <<>> THEN SubSeq(pp, 1, Len(pp) - 1) ELSE pp

Disjoint(p, q) == ~IsPrefixOf(p, q) /\ ~IsPrefixOf(q, p)

FrameOK(doc, h, res) ==
  \A q \in Positions(doc) : Disjoint(q, Container(h)) => Get(res, q) = Get(doc, q)

(***************************************************************************)
(* The machine.                                                            *)
(***************************************************************************)
(* Listed deviation "setkeys-identity-ignores-key-names": under SetKeys with two or more keys the   *)
(* identity of a member is the hash of the SORTED hashes of its key values, so two members of one  *)
(* array whose key values are permutations of each other across the keys are taken for the same    *)
(* object (v2/object.go ident: hashes.combine()).                                                  *)
ValueBag(m, keys) == LET s == [i \in DOMAIN keys |-> m.v[keys[i]]] IN [x \in SeqRange(s) |-> Cardinality({i \in DOMAIN s : s[i] = x})]
Colliding(m1, m2, keys) ==
  /\ IsObj(m1) /\ IsObj(m2)
  /\ \A i \in DOMAIN keys : HasKey(m1, keys[i]) /\ HasKey(m2, keys[i])
  /\ \E i \in DOMAIN keys : m1.v[keys[i]] # m2.v[keys[i]]
  /\ ValueBag(m1, keys) = ValueBag(m2, keys)
RECURSIVE ArrayMembers(_)
ArrayMembers(n) ==      \* the object members of every array inside n
  CASE IsArr(n) -> {n.v[i] : i \in {j \in DOMAIN n.v : IsObj(n.v[j])}} \cup UNION {ArrayMembers(n.v[i]) : i \in DOMAIN n.v}
    [] IsObj(n) -> UNION {ArrayMembers(n.v[key]) : key \in Keys(n)}
    [] OTHER -> {}
HasIdentCollision2(a, b, keys) ==
  LET M == ArrayMembers(a) \cup ArrayMembers(b) IN \E m1, m2 \in M : Colliding(m1, m2, keys)

VARIABLES doc, rest, status
pvars == <<doc, rest, status>>

PatchInit(d0, hs) ==
  /\ doc = d0 /\ rest = hs
  /\ status = IF hs = <<>> THEN "ok" ELSE "run"

Running == status = "run" /\ rest # <<>>
Next1 == ApplyHunk(doc, Head(rest))
Advance(r) ==
  /\ doc' = r
  /\ rest' = Tail(rest)
  /\ status' = IF Tail(rest) = <<>> THEN "ok" ELSE "run"

ListSplice  == Running /\ ~Head(rest).merge /\ LastKind(Head(rest)) = "idx"
               /\ Head(rest).path[Len(Head(rest).path)].v # -1 /\ ~Bad(Next1) /\ Advance(Next1)
ListAppend  == Running /\ ~Head(rest).merge /\ LastKind(Head(rest)) = "idx"
               /\ Head(rest).path[Len(Head(rest).path)].v = -1 /\ ~Bad(Next1) /\ Advance(Next1)
KeyEdit     == Running /\ ~Head(rest).merge /\ LastKind(Head(rest)) = "key" /\ ~Bad(Next1) /\ Advance(Next1)
RootReplace == Running /\ ~Head(rest).merge /\ LastKind(Head(rest)) = "root" /\ ~Bad(Next1) /\ Advance(Next1)
SetEdit     == Running /\ ~Head(rest).merge /\ LastKind(Head(rest)) = "set" /\ ~Bad(Next1) /\ Advance(Next1)
BagEdit     == Running /\ ~Head(rest).merge /\ LastKind(Head(rest)) = "mset" /\ ~Bad(Next1) /\ Advance(Next1)
MergeWrite  == Running /\ Head(rest).merge /\ ~Bad(Next1) /\ Advance(Next1)
Ambiguous   == Running /\ IsAmb(Next1) /\ status' = "amb" /\ UNCHANGED <<doc, rest>>
Fail        == Running /\ IsErr(Next1) /\ status' = "err" /\ UNCHANGED <<doc, rest>>

ApplyNext == ListSplice \/ ListAppend \/ KeyEdit \/ RootReplace \/ SetEdit \/ BagEdit \/ MergeWrite
PatchNext == ApplyNext \/ Fail \/ Ambiguous

(* properties of the machine *)
ErrTerminal == [][(status \in {"err", "amb", "ok"}) => (UNCHANGED pvars)]_pvars
FrameProp   == [][(Running /\ ~Head(rest).merge /\ ~Bad(Next1)) => FrameOK(doc, Head(rest), doc')]_pvars
=============================================================================
