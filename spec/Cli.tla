-------------------------------- MODULE Cli --------------------------------
(***************************************************************************)
(* The jd process (v2/jd/main.go, main.go): flag parsing, mode selection,  *)
(* argument arity, input reading and decoding, computing, emitting, exit   *)
(* status.  The bytes the library renders are an uninterpreted token that  *)
(* the harness instantiates by calling the library in-process with the     *)
(* options the flags translate to (C14: "print exactly what the library    *)
(* renders").                                                              *)
(*                                                                         *)
(* An invocation is a record                                               *)
(*   [bin, version, set, mset, setkeys, precision, f, o, obad, oin, p, t,   *)
(*    gdd,                                                                 *)
(*    yaml,                                                                *)
(*    color, nargs, stdin, in1, in2, pair]                                 *)
(* (in2 = "mismatch": in patch mode the target is not the document the      *)
(* diff was made for, so the library must return an error)                  *)
(* bin in {"v2","top","topv1"}; setkeys in {"", "ok", "bad"}; precision in *)
(* units of 1/8; f in {"", "jd", "patch", "merge", "bogus"}; t a           *)
(* translation name, "" or "bogus"; in1 / in2 in {"ok","invalid",          *)
(* "missing"}; pair indexes the input documents.                           *)
(***************************************************************************)
EXTENDS Integers, Sequences, FiniteSets, TLC

Translations == {"jd2patch", "patch2jd", "jd2merge", "merge2jd", "json2yaml", "yaml2json"}

(* Emit: with -o the file holds exactly the library's bytes afterwards, whatever it held before *)
(* (the harness pre-populates the file with longer stale content in half of the -o runs).        *)

(* ---- the machine: phases of one process ------------------------------------ *)
VARIABLES inv, phase, mode, result
cvars == <<inv, phase, mode, result>>

(* result: [kind, exit]; kind in version | usage | error | lib (the library decides: output or error) *)
R(kind, exit) == [kind |-> kind, exit |-> exit]

Start ==
  /\ phase = "start"
  /\ IF inv.version THEN phase' = "done" /\ result' = R("version", 0) /\ UNCHANGED mode
     ELSE phase' = "flags" /\ UNCHANGED <<mode, result>>
  /\ UNCHANGED inv

ParseFlags ==
  /\ phase = "flags" /\ UNCHANGED inv
  /\ IF (inv.precision # 0 /\ (inv.set \/ inv.mset)) \/ inv.setkeys = "bad"
     THEN phase' = "done" /\ result' = R("error", 2) /\ UNCHANGED mode
     ELSE IF inv.gdd THEN phase' = "gdd" /\ UNCHANGED <<mode, result>>
     ELSE phase' = "mode" /\ UNCHANGED <<mode, result>>

GitDiffDriver ==
  /\ phase = "gdd" /\ UNCHANGED inv /\ mode' = "gdd"
  /\ IF inv.nargs # 7 \/ inv.in1 # "ok" \/ inv.in2 # "ok"
     THEN phase' = "done" /\ result' = R("error", 2)
     ELSE phase' = "done" /\ result' = R("lib", 0)          \* always 0 when the library succeeds

SelectMode ==
  /\ phase = "mode" /\ UNCHANGED inv
  /\ IF inv.p /\ inv.t # "" THEN phase' = "done" /\ result' = R("error", 2) /\ UNCHANGED mode
     ELSE /\ mode' = IF inv.t # "" THEN "trans" ELSE IF inv.p THEN "patch" ELSE "diff"
          /\ phase' = "arity" /\ UNCHANGED result

Arity ==
  /\ phase = "arity" /\ UNCHANGED <<inv, mode>>
  /\ LET ok == IF mode = "trans" THEN inv.nargs \in {0, 1} ELSE inv.nargs \in {1, 2}
     IN IF ok THEN phase' = "read" /\ UNCHANGED result
        ELSE phase' = "done" /\ result' = R("usage", 2)

ReadInputs ==
  /\ phase = "read" /\ UNCHANGED <<inv, mode>>
  /\ LET missing == IF mode = "trans" THEN inv.nargs = 1 /\ inv.in1 = "missing"
                    ELSE inv.in1 = "missing" \/ (inv.nargs = 2 /\ inv.in2 = "missing")
     IN IF missing THEN phase' = "done" /\ result' = R("error", 2)
        ELSE phase' = "compute" /\ UNCHANGED result

Compute ==
  /\ phase = "compute" /\ UNCHANGED <<inv, mode>> /\ phase' = "done"
  /\ result' =
       IF mode = "trans" THEN (IF inv.t \in Translations THEN R("lib", 0) ELSE R("error", 2))
       ELSE IF inv.f = "bogus" THEN R("error", 2)
       ELSE R("lib", IF mode = "diff" THEN 1 ELSE 0)        \* diff mode: 1 iff the library reports a difference, see ExitOf

CliInit(i) == inv = i /\ phase = "start" /\ mode = "none" /\ result = R("none", -1)
CliNext == Start \/ ParseFlags \/ GitDiffDriver \/ SelectMode \/ Arity \/ ReadInputs \/ Compute

(* ---- the same as a function (used by the trace judge) ------------------------- *)
ModeOf(i) == IF i.gdd THEN "gdd" ELSE IF i.t # "" THEN "trans" ELSE IF i.p THEN "patch" ELSE "diff"

Outcome(i) ==
  IF i.version THEN R("version", 0)
  ELSE IF (i.precision # 0 /\ (i.set \/ i.mset)) \/ i.setkeys = "bad" THEN R("error", 2)
  ELSE IF i.gdd THEN (IF i.nargs # 7 \/ i.in1 # "ok" \/ i.in2 # "ok" THEN R("error", 2) ELSE R("lib", 0))
  ELSE IF i.p /\ i.t # "" THEN R("error", 2)
  ELSE LET m == ModeOf(i) IN
       IF ~(IF m = "trans" THEN i.nargs \in {0, 1} ELSE i.nargs \in {1, 2}) THEN R("usage", 2)
       ELSE IF (IF m = "trans" THEN i.nargs = 1 /\ i.in1 = "missing"
                ELSE i.in1 = "missing" \/ (i.nargs = 2 /\ i.in2 = "missing")) THEN R("error", 2)
       ELSE IF m = "trans" THEN (IF i.t \in Translations THEN R("lib", 0) ELSE R("error", 2))
       ELSE IF i.f = "bogus" THEN R("error", 2)
       ELSE R("lib", IF m = "diff" THEN 1 ELSE 0)

(* exit status once the library has answered: liberr = it returned an error, libdiff = it reports a difference *)
ExitOf(i, liberr, libdiff) ==
  LET o == Outcome(i) IN
  IF o.kind # "lib" THEN o.exit
  ELSE IF liberr THEN 2
  ELSE IF i.o /\ i.obad THEN 2               \* the result cannot be written where -o says: an error like any other
  ELSE IF ModeOf(i) = "diff" THEN (IF libdiff THEN 1 ELSE 0)
  ELSE 0

(* machine and function agree; exit status is always 0, 1 or 2; an error never reaches the library *)
AgreesWithFunction == phase = "done" => result = Outcome(inv)
ExitRange == phase = "done" => result.exit \in {0, 1, 2}

(* ---- the invocation matrix ------------------------------------------------------- *)
Bins == {"v2", "top", "topv1"}
Base == [bin |-> "v2", version |-> FALSE, set |-> FALSE, mset |-> FALSE, setkeys |-> "", precision |-> 0, f |-> "",
         o |-> FALSE, obad |-> FALSE, oin |-> "", fifo |-> FALSE, p |-> FALSE, t |-> "", gdd |-> FALSE, yaml |-> FALSE, color |-> FALSE, nargs |-> 2, stdin |-> FALSE,
         in1 |-> "ok", in2 |-> "ok", pair |-> 1]

(* valid diff / patch-round-trip invocations: array reading x format x yaml x color x -o x stdin x binary x pair *)
Readings == {[set |-> FALSE, mset |-> FALSE, setkeys |-> "", precision |-> 0],
             [set |-> TRUE,  mset |-> FALSE, setkeys |-> "", precision |-> 0],
             [set |-> FALSE, mset |-> TRUE,  setkeys |-> "", precision |-> 0],
             [set |-> FALSE, mset |-> FALSE, setkeys |-> "ok", precision |-> 0],
             [set |-> FALSE, mset |-> FALSE, setkeys |-> "", precision |-> 1]}
(* Keyable: the pairs whose array members all carry the key, the documented domain of -setkeys *)
DiffInvocations(Pairs, Keyable) ==
  { i \in { [Base EXCEPT !.bin = b, !.set = r.set, !.mset = r.mset, !.setkeys = r.setkeys, !.precision = r.precision,
                 !.f = f, !.yaml = y, !.color = c, !.o = o, !.stdin = s, !.nargs = IF s THEN 1 ELSE 2, !.pair = pr] :
      b \in Bins, r \in Readings, f \in {"", "jd", "patch", "merge"}, y \in BOOLEAN, c \in BOOLEAN, o \in BOOLEAN,
      s \in BOOLEAN, pr \in Pairs } : i.setkeys = "ok" => i.pair \in Keyable }

(* invocations that must end with status 2 (or print the version) *)
ErrorInvocations ==
  { [Base EXCEPT !.bin = b, !.precision = 1, !.set = TRUE] : b \in Bins } \cup
  { [Base EXCEPT !.bin = b, !.precision = 1, !.mset = TRUE] : b \in Bins } \cup
  { [Base EXCEPT !.bin = b, !.setkeys = "bad"] : b \in Bins } \cup
  { [Base EXCEPT !.bin = b, !.p = TRUE, !.t = "jd2patch"] : b \in Bins } \cup
  { [Base EXCEPT !.bin = b, !.nargs = n, !.p = p] : b \in Bins, n \in {0, 3}, p \in BOOLEAN } \cup
  { [Base EXCEPT !.bin = b, !.t = "json2yaml", !.nargs = 2] : b \in Bins } \cup
  { [Base EXCEPT !.bin = b, !.t = "bogus", !.nargs = 1] : b \in Bins } \cup
  { [Base EXCEPT !.bin = b, !.f = "bogus", !.p = p] : b \in Bins, p \in BOOLEAN } \cup
  { [Base EXCEPT !.bin = b, !.in1 = x, !.in2 = y, !.yaml = yy, !.p = p, !.f = f] :
        b \in Bins, x \in {"ok", "invalid", "missing"}, y \in {"ok", "invalid", "missing"}, yy \in BOOLEAN, p \in BOOLEAN,
        f \in {"", "patch", "merge"} } \cup
  { [Base EXCEPT !.bin = b, !.p = TRUE, !.in2 = "mismatch", !.f = f, !.pair = pr] : b \in Bins, f \in {"", "patch"}, pr \in {2, 6} } \cup
  { [Base EXCEPT !.bin = b, !.o = TRUE, !.obad = TRUE, !.p = p, !.f = f, !.pair = pr] : b \in Bins, p \in BOOLEAN, f \in {"", "merge"}, pr \in {1, 2} } \cup
  { [Base EXCEPT !.bin = b, !.o = TRUE, !.obad = TRUE, !.t = t, !.nargs = 1, !.pair = 2] : b \in Bins, t \in {"jd2patch", "json2yaml"} } \cup
  { [Base EXCEPT !.bin = b, !.version = TRUE, !.nargs = n] : b \in Bins, n \in {0, 2} } \cup
  { [Base EXCEPT !.bin = b, !.gdd = TRUE, !.nargs = n, !.in1 = x] : b \in Bins, n \in {2, 7}, x \in {"ok", "invalid", "missing"} }

(* a pair of large single-line documents (more than 64 KiB): file and stdin, diff and patch *)
BigInvocations(BigPair) ==
  { [Base EXCEPT !.bin = b, !.stdin = s, !.nargs = IF s THEN 1 ELSE 2, !.p = p, !.pair = BigPair] : b \in Bins, s \in BOOLEAN, p \in BOOLEAN }

(* edge pairs (a root replaced by an empty container, null, false, the empty string ...): every format, list and set reading *)
EdgeInvocations(Pairs) ==
  { [Base EXCEPT !.bin = b, !.set = st, !.f = f, !.pair = pr] : b \in Bins, st \in BOOLEAN, f \in {"", "jd", "patch", "merge"}, pr \in Pairs }

(* -o names one of the input files (patching or translating in place): the file afterwards holds what the library renders *)
(* from the inputs as they were, exactly as with any other -o target                                                      *)
InPlaceInvocations(Pairs) ==
  { [Base EXCEPT !.bin = b, !.o = TRUE, !.oin = w, !.p = TRUE, !.f = f, !.pair = pr] : b \in Bins, w \in {"in1", "in2"}, f \in {"", "patch", "merge"}, pr \in Pairs } \cup
  { [Base EXCEPT !.bin = b, !.o = TRUE, !.oin = w, !.f = f, !.pair = pr] : b \in Bins, w \in {"in1", "in2"}, f \in {"", "merge"}, pr \in Pairs } \cup
  { [Base EXCEPT !.bin = b, !.o = TRUE, !.oin = "in1", !.t = t, !.nargs = 1, !.pair = pr] : b \in Bins, t \in {"json2yaml", "jd2patch"}, pr \in Pairs }

(* the second file argument is a named pipe: a file like any other *)
FifoInvocations(Pairs) ==
  { [Base EXCEPT !.bin = b, !.fifo = TRUE, !.p = p, !.set = st, !.pair = pr] : b \in Bins, p \in BOOLEAN, st \in BOOLEAN, pr \in Pairs }

TransInvocations(Pairs) ==
  { [Base EXCEPT !.bin = b, !.t = t, !.nargs = IF s THEN 0 ELSE 1, !.stdin = s, !.o = o, !.pair = pr] :
      b \in Bins, t \in Translations, s \in BOOLEAN, o \in BOOLEAN, pr \in Pairs }
=============================================================================
