----------------------------- MODULE TraceMerge -----------------------------
(***************************************************************************)
(* C11 / C12: JSON Merge Patch (RFC 7386) output and input of jd against   *)
(* the RFC's MergePatch function (MergePatch.tla).                         *)
(*  mg: MgBegin(a,b,opts) Diff RenderMerge(st,p) ReadBack ApplyBack End    *)
(*  mp: MpBegin(p) Read(st,diff) Apply(t,res)* End                         *)
(***************************************************************************)
EXTENDS MergePatch, DiffText, TraceCore
FieldOrder == [k |-> 0, v |-> 0]   \* must stay the first definition of a root module (JsonValue.tla)

CONSTANT Props, KnownDevs
VARIABLE ctx
vars == <<shard, l, doc, rest, status, ctx>>
Judge(p) == p \in Props
Keep == UNCHANGED <<doc, rest, status>>

NoCtx == [a |-> Void, b |-> Void, o |-> NoOpt, d |-> <<>>, p |-> Void]
Init == CoreInit /\ doc = Void /\ rest = <<>> /\ status = "idle" /\ ctx = NoCtx

TMgBegin == IsEvent("MgBegin") /\ Consume /\ Keep /\ ctx' = [NoCtx EXCEPT !.a = Rec.a, !.b = Rec.b, !.o = Rec.opts]
TDiff    == IsEvent("Diff") /\ Consume /\ Keep /\ ctx' = [ctx EXCEPT !.d = Rec.diff]

TRenderMerge ==
  /\ IsEvent("RenderMerge") /\ Consume /\ Keep /\ ctx' = [ctx EXCEPT !.p = Rec.p]
  /\ Judge("C13") => Check(Rec.st \in {"ok", "err"}, "C13", "rendermerge-crash")
  /\ Judge("C11") =>
       /\ Check(Rec.st = "ok" /\ ~IsInvalid(Rec.p), "C11", "render-call")
       \* the statement is about documents that differ (an empty diff renders {}, which is not the identity on non-objects)
       /\ (Rec.st = "ok" /\ ~IsInvalid(Rec.p) /\ ~IsVoid(Rec.p) /\ ~Eq(ctx.a, ctx.b, ctx.o)) =>
            /\ Check(Eq(MergePatch(ctx.a, Rec.p), ctx.b, ctx.o), "C11", "rfc7386-on-a")
            \* writer conformance (informational)
            /\ LET m == RenderMergeModel(ctx.d) IN Note(~Bad(m) /\ Eq(m, Rec.p, ctx.o), "C11", "writer-model")

TReadBack ==
  /\ IsEvent("ReadBack") /\ Consume /\ Keep /\ UNCHANGED ctx
  /\ Judge("C13") => Check(Rec.st \in {"ok", "err"}, "C13", "readmerge-crash")
TApplyBack ==
  /\ IsEvent("ApplyBack") /\ Consume /\ Keep /\ UNCHANGED ctx
  \* not part of C11's statement (the RFC algorithm is the judge); jd reading its own merge patch is informational
  /\ Judge("C11") => Note(Rec.res.st = "ok" /\ Eq(Rec.res.doc, ctx.b, ctx.o), "C11", "own-output-read-back")

(* ---- C12 ------------------------------------------------------------------------- *)
TMpBegin == IsEvent("MpBegin") /\ Consume /\ Keep /\ ctx' = [NoCtx EXCEPT !.p = Rec.p]
TRead ==
  /\ IsEvent("Read") /\ Consume /\ Keep /\ ctx' = [ctx EXCEPT !.d = Rec.diff]
  /\ Judge("C13") => Check(Rec.st \in {"ok", "err"}, "C13", "readmerge-crash")
  /\ Judge("C12") => Check(Rec.st = "ok", "C12", "read-call")
  \* reader conformance: the hunks are those of the reader model (as a set: the order is the code's business)
  /\ (Judge("C12") /\ Rec.st = "ok") => Note(SeqRange(Rec.diff) = SeqRange(CodeMergeHunks(ctx.p)), "C12", "reader-model")

TApply ==
  /\ IsEvent("Apply") /\ Consume /\ Keep /\ UNCHANGED ctx
  /\ Judge("C13") => Check(Rec.res.st \in {"ok", "err"}, "C13", "patch-crash")
  /\ Judge("C12") =>
       LET want == MergePatch(Rec.t, ctx.p) IN
       IF Rec.res.st = "ok" /\ Rec.res.doc = want THEN TRUE
       ELSE IF \E D \in KnownDevs : Rec.res.st = "ok" /\ Rec.res.doc = MergePatchD(Rec.t, ctx.p, {D}, TRUE)
            THEN PrintT(<<"JDV-KNOWN", Rec.sess, "C12", CHOOSE D \in KnownDevs : Rec.res.doc = MergePatchD(Rec.t, ctx.p, {D}, TRUE)>>)
       ELSE FailLine("C12", <<"differs-from-rfc7386", Rec.res.st>>)
  \* the reader against the ideal hunk list, applied by the specification's interpreter (informational)
  /\ Judge("C12") =>
       LET m == ApplyAll(Rec.t, ctx.d) IN
       Note(Rec.res.st = "ok" /\ ~Bad(m) /\ m = Rec.res.doc, "C12", "patch-model")

TEnd == IsEvent("End") /\ Consume /\ Keep /\ ctx' = NoCtx

Next == TMgBegin \/ TDiff \/ TRenderMerge \/ TReadBack \/ TApplyBack \/ TMpBegin \/ TRead \/ TApply \/ TEnd
        \/ (Done /\ UNCHANGED <<doc, rest, status, ctx>>)
Spec == Init /\ [][Next]_vars
=============================================================================
