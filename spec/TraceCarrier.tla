---------------------------- MODULE TraceCarrier ----------------------------
(***************************************************************************)
(* C16: one event per document: what each leg of Carrier!Protocols         *)
(* delivered.  Every leg must deliver the document itself.                 *)
(*   Ya(n, yy, jj, jy, eq, pys, cli, cli2)                                 *)
(***************************************************************************)
EXTENDS JsonValue, TraceCore
FieldOrder == [k |-> 0, v |-> 0]   \* must stay the first definition of a root module (JsonValue.tla)
CONSTANT Props, KnownDevs
vars == <<shard, l>>
Init == CoreInit

Same(x, n) == x.k # "I" /\ x = n
RECURSIVE Hostile(_)
Hostile(n) ==      \* contains a string / key atom of the hostile table, or is a container
  CASE n.k = "s" -> TRUE
    [] n.k = "A" -> TRUE
    [] n.k = "O" -> TRUE
    [] OTHER -> FALSE

TYa ==
  /\ IsEvent("Ya") /\ Consume
  /\ (Hostile(Rec.n) => PrintT(<<"JDV-STAT", "nontrivial", 1>>))
  /\ LET n == Rec.n IN
     /\ Check(Same(Rec.yy, n), "C16", "yaml-write-yaml-read")
     /\ Check(Same(Rec.jj, n), "C16", "json-write-json-read")
     /\ Check(Same(Rec.jy, n), "C16", "json-write-yaml-read")
     /\ Check(Rec.eq, "C16", "yaml-born-not-equal-json-born")
     /\ \A i \in DOMAIN Rec.pys : Check(Same(Rec.pys[i].gy, Rec.pys[i].gj) /\ Same(Rec.pys[i].gj, Rec.pys[i].m), "C16", "yaml-born-patched-like-json-born")
     /\ ("cli" \in DOMAIN Rec) => Check(Same(Rec.cli, n), "C16", "cli-json2yaml-yaml2json")
     /\ ("cli2" \in DOMAIN Rec) => Check(Same(Rec.cli2, Rec.b), "C16", "cli-yaml-diff-patch")
Next == TYa \/ Done
Spec == Init /\ [][Next]_vars
=============================================================================
