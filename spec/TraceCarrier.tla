---------------------------- MODULE TraceCarrier ----------------------------
(***************************************************************************)
(* C16: one event per document: what each leg of Carrier!Protocols         *)
(* delivered.  Every leg must deliver the document itself.                 *)
(*   Ya(n, yy, jj, jy, eq, pys, cli, cli2)                                 *)
(***************************************************************************)
EXTENDS JsonValue, TraceCore
FieldOrder == [k |-> 0, v |-> 0]   \* must stay the first definition of a root module (JsonValue.tla)
CONSTANT Props, KnownDevs
vars == <<shard, l>>
Init == CoreInit

Same(x, n) == x.k # "I" /\ x = n
RECURSIVE Hostile(_)
Hostile(n) ==      \* contains a string / key atom of the hostile table, or is a container
  CASE n.k = "s" -> TRUE
    [] n.k = "A" -> TRUE
    [] n.k = "O" -> TRUE
    [] OTHER -> FALSE

(* listed deviation "yaml-merge-key-unquoted": the YAML writer leaves the object key "<<" (atom y42) unquoted, and every   *)
(* YAML reader takes it for a merge key; only the legs that write YAML are affected                                        *)
RECURSIVE HasMergeKey(_)
HasMergeKey(n) ==
  CASE n.k = "O" -> ("y42" \in DOMAIN n.v) \/ \E key \in DOMAIN n.v : HasMergeKey(n.v[key])
    [] n.k = "A" -> \E i \in DOMAIN n.v : HasMergeKey(n.v[i])
    [] OTHER -> FALSE
CheckY(c, clause) ==
  IF c THEN TRUE
  ELSE IF "yaml-merge-key-unquoted" \in KnownDevs /\ HasMergeKey(Rec.n) THEN PrintT(<<"JDV-KNOWN", Rec.sess, "C16", "yaml-merge-key-unquoted", clause>>)
  ELSE FailLine("C16", clause)

TYa ==
  /\ IsEvent("Ya") /\ Consume
  /\ (Hostile(Rec.n) => PrintT(<<"JDV-STAT", "nontrivial", 1>>))
  /\ LET n == Rec.n IN
     /\ CheckY(Same(Rec.yy, n), "yaml-write-yaml-read")
     /\ Check(Same(Rec.jj, n), "C16", "json-write-json-read")
     /\ Check(Same(Rec.jy, n), "C16", "json-write-yaml-read")
     /\ CheckY(Rec.eq, "yaml-born-not-equal-json-born")
     /\ \A i \in DOMAIN Rec.pys : CheckY(Same(Rec.pys[i].gy, Rec.pys[i].gj) /\ Same(Rec.pys[i].gj, Rec.pys[i].m), "yaml-born-patched-like-json-born")
     /\ ("cli" \in DOMAIN Rec) => CheckY(Same(Rec.cli, n), "cli-json2yaml-yaml2json")
     /\ ("cli2" \in DOMAIN Rec) => CheckY(Same(Rec.cli2, Rec.b), "cli-yaml-diff-patch")
Next == TYa \/ Done
Spec == Init /\ [][Next]_vars
=============================================================================
