----------------------------- MODULE TraceText -----------------------------
(***************************************************************************)
(* C02: the native text format as a lossless carrier.  Session grammar:    *)
(*   TxBegin(d, src) Render(lines, raw) Read(st, diff) Render2(same,lines) *)
(*   Color(same) Effect(c, r1, r2)* End                                    *)
(* d is the diff value the library holds (returned by Diff, or built from  *)
(* public DiffElement fields); lines are the lexed lines of what the real  *)
(* writer produced; diff is what the real reader returned for that text.   *)
(* The writer model (RenderDiff) and the reader automaton (ReadLines) of   *)
(* DiffText.tla are validated against both.                                *)
(***************************************************************************)
EXTENDS DiffText, TraceCore
FieldOrder == [k |-> 0, v |-> 0]   \* must stay the first definition of a root module (JsonValue.tla)

CONSTANT Props, KnownDevs
VARIABLE ctx
vars == <<shard, l, doc, rest, status, ctx>>
Judge(p) == p \in Props

NoCtx == [d |-> <<>>, src |-> "none", lines |-> <<>>, read |-> "none", d2 |-> <<>>, rd |-> "list"]
Init == CoreInit /\ doc = Void /\ rest = <<>> /\ status = "idle" /\ ctx = NoCtx
Keep == UNCHANGED <<doc, rest, status>>

TBegin ==
  /\ IsEvent("TxBegin") /\ Consume /\ Keep
  /\ ctx' = [NoCtx EXCEPT !.d = Rec.d, !.src = Rec.src,
                         !.rd = IF Rec.src = "diff" THEN Reading(Rec.opts) ELSE "list"]

(* a diff returned by Diff must round-trip whatever its shape; a built one when it is well-formed *)
MustCarry == ctx.src = "diff" \/ WellFormedDiff(ctx.d)

TRender ==
  /\ IsEvent("Render") /\ Consume /\ Keep
  /\ ctx' = [ctx EXCEPT !.lines = Rec.lines]
  /\ Judge("C02") => Check(Rec.st = "ok", "C02", "render-call")
  /\ Judge("C13") => Check(Rec.st = "ok", "C13", "render-crash")
  \* writer conformance (informational: the statement does not fix the text, only the round trip)
  /\ (Judge("C02") /\ Rec.st = "ok") => Note(ctx.rd # "list" \/ Rec.lines = RenderDiff(ctx.d), "C02", "writer-model")

TRead ==
  /\ IsEvent("Read") /\ Consume /\ Keep
  /\ ctx' = [ctx EXCEPT !.read = Rec.st, !.d2 = Rec.diff]
  /\ Judge("C13") => Check(Rec.st \in {"ok", "err"}, "C13", "read-crash")
  /\ Judge("C02") =>
       /\ MustCarry => Check(Rec.st = "ok", "C02", "reader-rejects-own-text")
       /\ (MustCarry /\ Rec.st = "ok") => Check(CanonDiff(Rec.diff, ctx.rd) = CanonDiff(ctx.d, ctx.rd), "C02", "reread-differs")
       \* reader conformance: the automaton run on the real lines predicts the real outcome
       /\ LET m == ReadLines(ctx.lines) IN
          Note((Rec.st = "ok") = m.ok /\ (m.ok => m.diff = Rec.diff), "C02", "reader-model")

TRender2 ==
  /\ IsEvent("Render2") /\ Consume /\ Keep /\ UNCHANGED ctx
  /\ (Judge("C02") /\ MustCarry) =>
       /\ Check(Rec.st = "ok" /\ Rec.same, "C02", "rerender-differs")
       /\ Check(Rec.lines = ctx.lines, "C02", "rerender-lines")

TColor ==
  /\ IsEvent("Color") /\ Consume /\ Keep /\ UNCHANGED ctx
  /\ Judge("C02") => Check(Rec.st = "ok" /\ Rec.same, "C02", "color-adds-more-than-ansi")
  /\ Judge("C13") => Check(Rec.st = "ok", "C13", "render-crash")

SameRes(r1, r2) ==
  \/ r1.st = "err" /\ r2.st = "err"
  \/ r1.st = "ok" /\ r2.st = "ok" /\ EqR(r1.doc, r2.doc, ctx.rd)

TEffect ==
  /\ IsEvent("Effect") /\ Consume /\ Keep /\ UNCHANGED ctx
  /\ (Judge("C02") /\ MustCarry) =>
       /\ Check(SameRes(Rec.r1, Rec.r2), "C02", "effect-differs")
       \* the same on the specification's interpreter: normal forms have identical effect
       /\ LET m1 == ApplyAll(Rec.c, ctx.d)  m2 == ApplyAll(Rec.c, ctx.d2) IN
          Note((Bad(m1) /\ Bad(m2)) \/ (~Bad(m1) /\ ~Bad(m2) /\ EqR(m1, m2, ctx.rd)), "C02", "effect-model")
  /\ Judge("C13") => Check(Rec.r1.st \in {"ok", "err"} /\ Rec.r2.st \in {"ok", "err"}, "C13", "patch-crash")

TEnd == IsEvent("End") /\ Consume /\ Keep /\ ctx' = NoCtx

Next == TBegin \/ TRender \/ TRead \/ TRender2 \/ TColor \/ TEffect \/ TEnd \/ (Done /\ UNCHANGED <<doc, rest, status, ctx>>)
Spec == Init /\ [][Next]_vars
=============================================================================
