--------------------------------- MODULE V1 ---------------------------------
(***************************************************************************)
(* The v1 library (package lib): hunks are [path, remove, add] where the   *)
(* path carries its metadata in-line as arrays of strings - lower case     *)
(* (["set"], ["multiset"], ["setkeys=..."]) for the next element, upper    *)
(* case (["MERGE"], only in front) for the whole path (lib/path.go:64-95). *)
(* List diffs are positional: in-place replacements, deletions emitted     *)
(* from the highest index down, growth emitted as -1 appends               *)
(* (lib/list.go:55-123); the list patcher inserts, deletes, replaces and   *)
(* appends without context (lib/list.go:129-233).                          *)
(***************************************************************************)
EXTENDS JsonPatch, MergePatch

V1Hunk(p, rm, ad) == [path |-> p, remove |-> rm, add |-> ad]

IsMeta(n) == IsArr(n)
MetaHas(n, s) == \E i \in DOMAIN n.v : n.v[i] = Str(s)

(* translate a v1 path into [merge, elems] with the path elements of Patch.tla *)
RECURSIVE V1Elems(_, _)
V1Elems(p, meta) ==        \* meta: the metadata strings seen since the last element
  IF p = <<>> THEN <<>>
  ELSE LET e == Head(p) IN
       CASE IsArr(e) -> V1Elems(Tail(p), meta \cup {e.v[i].v : i \in {j \in DOMAIN e.v : e.v[j].k = "s"}})
         [] e.k = "s" -> <<PKey(e.v)>> \o V1Elems(Tail(p), {})
         [] e.k = "n" -> <<PIdx(e.v \div 8)>> \o V1Elems(Tail(p), {})
         [] e.k = "O" -> <<(IF Keys(e) = {} THEN (IF "multiset" \in meta THEN PMset ELSE PSet)
                            ELSE (IF "multiset" \in meta THEN PMsetKeys(e.v) ELSE PSetKeys(e.v)))>> \o V1Elems(Tail(p), {})
         [] OTHER -> <<[k |-> "bad", v |-> 0]>>
V1Merge(p) == p # <<>> /\ IsArr(p[1]) /\ MetaHas(p[1], "MERGE")

(* v1 list element edit: exactly one old and / or one new value, no context *)
ListEdit1(l, i0, h) ==
  LET old == Single(h.remove)  new == Single(h.add)
      i == IF i0 = -1 THEN Len(l) ELSE i0 IN
  IF Len(h.remove) > 1 \/ Len(h.add) > 1 THEN Err
  ELSE IF IsVoid(new) THEN      \* deletion
       IF i < 0 \/ i >= Len(l) \/ l[i + 1] # old THEN Err ELSE Arr(SeqRemoveAt(l, i + 1))
  ELSE IF IsVoid(old) THEN      \* insertion / append
       IF i < 0 \/ i > Len(l) THEN Err ELSE Arr(SubSeq(l, 1, i) \o <<new>> \o SubSeq(l, i + 1, Len(l)))
  ELSE IF i < 0 \/ i >= Len(l) \/ l[i + 1] # old THEN Err
  ELSE Arr(SeqReplace(l, i + 1, new))

RECURSIVE PS1(_, _, _)
PS1(n, p, h) ==
  IF p = <<>> THEN Replace(n, [h EXCEPT !.remove = h.remove, !.add = h.add])
  ELSE
    LET e == Head(p)  tl == Tail(p) IN
    CASE e.k = "key" ->
           IF ~IsObj(n) THEN Err
           ELSE LET child == IF HasKey(n, e.v) THEN n.v[e.v] ELSE Void
                    r == PS1(child, tl, h)
                IN IF Bad(r) THEN r ELSE IF IsVoid(r) THEN ObjDel(n, e.v) ELSE ObjPut(n, e.v, r)
      [] e.k = "idx" ->
           IF ~IsArr(n) THEN Err
           ELSE IF tl = <<>> THEN ListEdit1(n.v, e.v, h)
           ELSE IF e.v < 0 \/ e.v >= Len(n.v) THEN Err
           ELSE LET r == PS1(n.v[e.v + 1], tl, h)
                IN IF Bad(r) THEN r ELSE IF IsVoid(r) THEN Err ELSE Arr(SeqReplace(n.v, e.v + 1, r))
      [] e.k = "set" -> IF tl # <<>> \/ ~IsArr(n) THEN Err ELSE SetHunk(n.v, h)
      [] e.k = "mset" -> IF tl # <<>> \/ ~IsArr(n) THEN Err ELSE BagHunk(n.v, h)
      [] e.k = "setkeys" ->
           IF tl = <<>> \/ ~IsArr(n) THEN Err
           ELSE LET M == KeyedMatches(n.v, e.v) IN
                IF M = {} THEN Err ELSE IF Cardinality(M) > 1 THEN Amb
                ELSE LET i == CHOOSE j \in M : TRUE  r == PS1(n.v[i], tl, h)
                     IN IF Bad(r) THEN r ELSE IF IsVoid(r) THEN Err ELSE Arr(SeqReplace(n.v, i, r))
      [] OTHER -> Err

AsHunk(h1) == Hunk(V1Merge(h1.path), V1Elems(h1.path, {}), <<>>, h1.remove, h1.add, <<>>)
ApplyV1(d0, h1) ==
  LET h == AsHunk(h1) IN
  IF h.merge THEN (IF MergeShapeOK(h) THEN PM(d0, h.path, h) ELSE Err) ELSE PS1(d0, h.path, h)
RECURSIVE ApplyAllV1(_, _)
ApplyAllV1(d0, hs) ==
  IF hs = <<>> THEN d0 ELSE LET r == ApplyV1(d0, Head(hs)) IN IF Bad(r) THEN r ELSE ApplyAllV1(r, Tail(hs))

(* ---- the positional list differ as a relation on the emitted hunks ---------------- *)
(* when the array shrinks, deletions come from the highest index down; when it grows,  *)
(* the new tail is appended with index -1 in order                                     *)
PositionalOK(aP, bP, hs) ==       \* hs: the hunks whose path is exactly P \o <<idx>>, in order, as <<index, remove, add>>
  LET la == Len(aP)  lb == Len(bP) IN
  IF la > lb THEN
       \A k \in DOMAIN hs : hs[k][1] >= 0 /\ (\A k2 \in DOMAIN hs : k < k2 => hs[k][1] > hs[k2][1])
  ELSE \A k \in DOMAIN hs : (hs[k][1] = -1) => hs[k][2] = <<>>
=============================================================================
