------------------------------ MODULE DiffRel ------------------------------
(***************************************************************************)
(* Property-level relations between (a, b, options) and a diff d.  These   *)
(* are the judges of C01, C05, C06 and C07: they are evaluated on the diff *)
(* the real library returned, never compared with a particular diff, so a  *)
(* behaviour-preserving change of the differ is accepted (DESIGN.md 3.5).  *)
(* The same relations are model-checked on the reference differ (Diff.tla) *)
(* and on every behaviour of the list-diff machine (ListDiff.tla).         *)
(***************************************************************************)
EXTENDS Patch

(* resolve a hunk path inside a document; setkeys elements select the unique matching member *)
RECURSIVE GetX(_, _)
GetX(n, p) ==
  IF p = <<>> THEN n
  ELSE LET e == Head(p) IN
       CASE e.k = "key" /\ IsObj(n) /\ HasKey(n, e.v) -> GetX(n.v[e.v], Tail(p))
         [] e.k = "idx" /\ IsArr(n) /\ e.v >= 0 /\ e.v < Len(n.v) -> GetX(n.v[e.v + 1], Tail(p))
         [] e.k = "setkeys" /\ IsArr(n) /\ Cardinality(KeyedMatches(n.v, e.v)) = 1 ->
              GetX(n.v[CHOOSE i \in KeyedMatches(n.v, e.v) : TRUE], Tail(p))
         [] OTHER -> Void

Parent(h)   == SubSeq(h.path, 1, Len(h.path) - 1)
LastElem(h) == h.path[Len(h.path)]
IsListHunk(h) == ~h.merge /\ h.path # <<>> /\ LastElem(h).k = "idx"
IsSetHunk(h)  == ~h.merge /\ h.path # <<>> /\ LastElem(h).k = "set"
IsBagHunk(h)  == ~h.merge /\ h.path # <<>> /\ LastElem(h).k = "mset"
IsValueHunk(h) == ~IsListHunk(h) /\ ~IsSetHunk(h) /\ ~IsBagHunk(h)    \* key / root / keyed-member value

NonVoid(s) == NonVoidSeq(s)

(* ---------------------------------------------------------------------- *)
(* C01 on the model: sequential application reproduces b.                 *)
RoundTrips(a, b, o, d) ==
  LET r == ApplyAll(a, d) IN ~Bad(r) /\ Eq(r, b, o)

(* C05 *)
EmptyIffEqual(a, b, o, d) == (d = <<>>) <=> Eq(a, b, o)

(* ---------------------------------------------------------------------- *)
(* C06: context.  Every strict hunk editing an array position has exactly  *)
(* one before and one after line; that they equal the neighbours (or the   *)
(* boundary) is part of ApplyAll succeeding (Splice checks them).          *)
HasContext(d) ==
  \A i \in DOMAIN d : (IsListHunk(d[i]) /\ LastElem(d[i]).v >= 0) =>
        Len(d[i].before) = 1 /\ Len(d[i].after) = 1

(* C06: same-position containers of the same kind are recursed into, not   *)
(* replaced (position i+k of the array before / after the hunk).           *)
Recurses(d) ==
  \A i \in DOMAIN d :
    LET h == d[i] IN
    IF h.merge THEN TRUE
    ELSE IF IsListHunk(h) THEN
           \A k \in 1..Min2(Len(h.remove), Len(h.add)) : ~SameContainerKind(h.remove[k], h.add[k])
    ELSE IF IsValueHunk(h) THEN
           ~(Len(NonVoid(h.remove)) = 1 /\ Len(NonVoid(h.add)) = 1
             /\ SameContainerKind(NonVoid(h.remove)[1], NonVoid(h.add)[1]))
    ELSE TRUE

(* C07: "equal sub-documents are never mentioned": a hunk that replaces a container by a container of   *)
(* the same kind must not carry a part that is equal on both sides (it would have been recursed into).  *)
SharesPart(x, y) ==
  IF IsObj(x) /\ IsObj(y) THEN \E key \in Keys(x) \cap Keys(y) : x.v[key] = y.v[key]
  ELSE IF IsArr(x) /\ IsArr(y) THEN \E i \in DOMAIN x.v : \E j \in DOMAIN y.v : x.v[i] = y.v[j]
  ELSE FALSE
NoSharedPartReplaced(d) ==
  \A i \in DOMAIN d :
    LET h == d[i] IN
    IF h.merge THEN TRUE
    ELSE IF IsListHunk(h) THEN
           \A k \in 1..Min2(Len(h.remove), Len(h.add)) : ~SharesPart(h.remove[k], h.add[k])
    ELSE IF IsValueHunk(h) THEN
           ~(Len(NonVoid(h.remove)) = 1 /\ Len(NonVoid(h.add)) = 1 /\ SharesPart(NonVoid(h.remove)[1], NonVoid(h.add)[1]))
    ELSE TRUE

(* C06: minimality against an independently computed LCS.  Hunks are       *)
(* grouped by the array they edit; path indices are result coordinates,    *)
(* so the b-side array is GetX(b, P) and the a-side array is found in the  *)
(* document before the group's first hunk.                                 *)
AllScalars(t) == \A i \in DOMAIN t : ~IsContainer(t[i])
ListContainers(d) == {Parent(d[i]) : i \in {j \in DOMAIN d : IsListHunk(d[j])}}

MinimalAt(P, a, b, d, docs) ==
  LET K  == {i \in DOMAIN d : IsListHunk(d[i]) /\ Parent(d[i]) = P}
      k0 == CHOOSE i \in K : \A j \in K : i <= j
      aP == GetX(docs[k0], P)
      bP == GetX(b, P)
      rm == SumSeq([i \in 1..Len(d) |-> IF i \in K THEN Len(d[i].remove) ELSE 0])
      ad == SumSeq([i \in 1..Len(d) |-> IF i \in K THEN Len(d[i].add) ELSE 0])
  IN IF ~IsArr(aP) \/ ~IsArr(bP) THEN FALSE
     \* a consequence of minimality that needs no table: inside one edited region no value is both removed and added
     \* (two equal elements there could have been kept); it is all that is judged when the LCS table would exceed 1.5 M cells
     ELSE IF \E i \in K : SeqRange(NonVoid(d[i].remove)) \cap SeqRange(NonVoid(d[i].add)) # {} THEN FALSE
     ELSE IF Len(aP.v) * Len(bP.v) > 1500000 THEN TRUE
     ELSE LET lcs == LcsLen(aP.v, bP.v) IN
          /\ rm <= Len(aP.v) - lcs
          /\ ad <= Len(bP.v) - lcs
          /\ (AllScalars(aP.v) /\ AllScalars(bP.v)) => (rm = Len(aP.v) - lcs /\ ad = Len(bP.v) - lcs)

Minimal(a, b, d) ==
  LET docs == ApplyTrace(a, d) IN
  IF Len(docs) # Len(d) + 1 \/ Bad(docs[Len(docs)]) THEN FALSE
  ELSE \A P \in ListContainers(d) : MinimalAt(P, a, b, d, docs)

(* ---------------------------------------------------------------------- *)
(* C07: every hunk describes a real difference.                            *)
MembersC(n, rd) == IF IsArr(n) THEN {Canon(n.v[i], rd) : i \in DOMAIN n.v} ELSE {}
CountC(c, n, rd) == IF IsArr(n) THEN Count(c, n.v, rd) ELSE 0
CanonSeq(s, rd) == {Canon(s[i], rd) : i \in DOMAIN s}

(* the hunk says something: it is not empty and what it removes differs from what it adds *)
NotNoop(h, docBefore, o) ==
  IF h.merge THEN Len(h.add) <= 1 /\ ~EqR(GetX(docBefore, h.path), Single(h.add), Reading(o))
  ELSE IF IsSetHunk(h) THEN
         /\ NonVoid(h.remove) # <<>> \/ NonVoid(h.add) # <<>>
         /\ CanonSeq(h.remove, "set") \cap CanonSeq(h.add, "set") = {}
  ELSE IF IsBagHunk(h) THEN
         /\ NonVoid(h.remove) # <<>> \/ NonVoid(h.add) # <<>>
         /\ CanonSeq(h.remove, "mset") \cap CanonSeq(h.add, "mset") = {}
  ELSE /\ NonVoid(h.remove) # <<>> \/ NonVoid(h.add) # <<>>
       /\ NonVoid(h.remove) # NonVoid(h.add)
       \* "equal sub-documents are never mentioned": one list hunk never removes and adds the same value (two equal elements
       \* inside one edited region could have been kept: every minimal edit script has this property)
       /\ IsListHunk(h) => SeqRange(NonVoid(h.remove)) \cap SeqRange(NonVoid(h.add)) = {}

(* added values are in b at the addressed location; for set / bag hunks the removed ones are not *)
AddsInB(h, b, docBefore, o) ==
  IF h.merge THEN GetX(b, h.path) = Single(h.add) \/ (Reading(o) # "list" /\ EqR(GetX(b, h.path), Single(h.add), Reading(o)))
  ELSE IF IsListHunk(h) THEN
         LET bP == GetX(b, Parent(h))  i == LastElem(h).v IN
         /\ IsArr(bP)
         /\ IF i = -1 THEN Len(bP.v) >= Len(h.add) /\ SubSeq(bP.v, Len(bP.v) - Len(h.add) + 1, Len(bP.v)) = h.add
            ELSE i + Len(h.add) <= Len(bP.v) /\ SubSeq(bP.v, i + 1, i + Len(h.add)) = h.add
  ELSE IF IsSetHunk(h) THEN
         LET bP == GetX(b, Parent(h))  aP == GetX(docBefore, Parent(h)) IN
         /\ CanonSeq(h.add, "set") \subseteq MembersC(bP, "set")
         /\ CanonSeq(h.remove, "set") \cap MembersC(bP, "set") = {}
         /\ CanonSeq(h.add, "set") \cap MembersC(aP, "set") = {}
  ELSE IF IsBagHunk(h) THEN
         LET bP == GetX(b, Parent(h))  aP == GetX(docBefore, Parent(h)) IN
         /\ \A c \in CanonSeq(h.add, "mset") :
              Count(c, h.add, "mset") = CountC(c, bP, "mset") - CountC(c, aP, "mset")
         /\ \A c \in CanonSeq(h.remove, "mset") :
              Count(c, h.remove, "mset") = CountC(c, aP, "mset") - CountC(c, bP, "mset")
  ELSE EqR(GetX(b, h.path), Single(h.add), Reading(o))

MentionsOnlyDifferences(a, b, o, d) ==
  LET docs == ApplyTrace(a, d) IN
  IF Len(docs) # Len(d) + 1 \/ Bad(docs[Len(docs)]) THEN FALSE
  ELSE \A i \in DOMAIN d : NotNoop(d[i], docs[i], o) /\ AddsInB(d[i], b, docs[i], o)

(* C07: no hunk is redundant *)
Without(d, k) == SubSeq(d, 1, k - 1) \o SubSeq(d, k + 1, Len(d))
NoRedundantHunk(a, b, o, d) ==
  \A k \in DOMAIN d :
    LET r == ApplyAll(a, Without(d, k)) IN Bad(r) \/ ~Eq(r, b, o)

(* strictly increasing indices inside one array (hunks are in document order) *)
IndicesIncrease(d) ==
  \A i, j \in DOMAIN d :
    (i < j /\ IsListHunk(d[i]) /\ IsListHunk(d[j]) /\ Parent(d[i]) = Parent(d[j])
       /\ LastElem(d[i]).v >= 0 /\ LastElem(d[j]).v >= 0)
    => LastElem(d[i]).v < LastElem(d[j]).v
=============================================================================
