------------------------------ MODULE TraceEq ------------------------------
(***************************************************************************)
(* C04: every recorded Equals call is compared with the equality oracle    *)
(* Eq (canonical forms, JsonValue.tla).  One event per session:            *)
(*    Eq(a, b, opts, ab, ba, aa)                                           *)
(***************************************************************************)
EXTENDS JsonValue, TraceCore
FieldOrder == [k |-> 0, v |-> 0]   \* must stay the first definition of a root module (JsonValue.tla)

CONSTANT Props, KnownDevs

vars == <<shard, l>>
Init == CoreInit

Ok(r) == r.st = "ok"

(* Listed deviation "number-string-hash-alias": set / multiset equality is decided on     *)
(* 64-bit member hashes, and the hash of a number is the FNV digest of its 8 float64     *)
(* bytes without domain separation from strings: inside a set or multiset a number is    *)
(* the same member as the 8-byte string with those bytes (model number 1000001 is the    *)
(* float whose little-endian bytes are "AAAAAAAA", model string "sA").                    *)
RECURSIVE Alias(_)
Alias(n) ==
  CASE IsArr(n) -> Arr([i \in DOMAIN n.v |-> Alias(n.v[i])])
    [] IsObj(n) -> Obj([key \in Keys(n) |-> Alias(n.v[key])])
    [] IsNum(n) /\ n.v = 1000001 -> Str("sA")
    [] OTHER -> n
RECURSIVE AliasMembers(_)
\* aliasing only concerns members of arrays compared by hash, not the outermost values
AliasMembers(n) ==
  CASE IsArr(n) -> Arr([i \in DOMAIN n.v |-> Alias(n.v[i])])
    [] IsObj(n) -> Obj([key \in Keys(n) |-> AliasMembers(n.v[key])])
    [] OTHER -> n
EqAliased(a, b, o) == Eq(AliasMembers(a), AliasMembers(b), o)

TEq ==
  /\ IsEvent("Eq") /\ Consume
  /\ LET a == Rec.a  b == Rec.b  o == Rec.opts
         want == Eq(a, b, o)
         explained(r) == Reading(o) # "list" /\ "number-string-hash-alias" \in KnownDevs /\ r.bool = EqAliased(a, b, o)
     IN "C04" \in Props =>
          /\ Check(Ok(Rec.ab) /\ Ok(Rec.ba) /\ Ok(Rec.aa), "C04", "equals-call")
          /\ (Ok(Rec.ab) /\ Ok(Rec.ba) /\ Ok(Rec.aa)) =>
               /\ Check(Rec.aa.bool, "C04", "reflexive")
               /\ Check(Rec.ab.bool = Rec.ba.bool, "C04", "symmetric")
               /\ IF Rec.ab.bool = want THEN TRUE
                  ELSE IF explained(Rec.ab) THEN PrintT(<<"JDV-KNOWN", Rec.sess, "C04", "number-string-hash-alias">>)
                  ELSE FailLine("C04", <<"oracle", want>>)

Next == TEq \/ Done
Spec == Init /\ [][Next]_vars
=============================================================================
