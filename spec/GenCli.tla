------------------------------- MODULE GenCli -------------------------------
(* Exports the invocation matrix of Cli.tla and the input pairs it refers to. *)
EXTENDS Cli, Universe, Json, IOUtils
FieldOrder == [k |-> 0, v |-> 0]   \* must stay the first definition of a root module (JsonValue.tla)

P(a, b) == [a |-> a, b |-> b]
CliPairs == <<
  P(O1("k0", N1), O1("k0", N1)),
  P(O2("k0", Arr(<<N1, N2, N3>>), "k1", S0), O2("k0", Arr(<<N1, N3>>), "k1", S1)),
  P(Arr(<<N1, N2, N3>>), Arr(<<N3, N2, N1>>)),
  P(Arr(<<KObj(N1, N1), KObj(N2, N2)>>), Arr(<<KObj(N2, N3), KObj(N1, N1)>>)),
  P(O1("k0", Num(8)), O1("k0", Num(9))),
  P(O1("k0", O1("k1", Arr(<<N1, O1("k2", N2)>>))), O2("k0", O1("k1", Arr(<<N1, O1("k2", N3)>>)), "k1", Bool(TRUE))),
  P(Arr(<<N1, N1, N2>>), Arr(<<N1, N2, N2>>)),
  P(Void, O1("k0", N1)) >>
PairIds == 1..Len(CliPairs)

All == DiffInvocations(PairIds, PairIds \ {6}) \cup ErrorInvocations \cup TransInvocations({2, 6})
ASSUME ndJsonSerialize(IOEnv.JDV_OUT \o "/invocations.ndjson", SetToSeq(All))
ASSUME ndJsonSerialize(IOEnv.JDV_OUT \o "/clipairs.ndjson", CliPairs)
ASSUME PrintT(<<"JDV-STAT", "invocations", Cardinality(All)>>)
GenInit == inv = 0 /\ phase = "done" /\ mode = "none" /\ result = 0
GenNext == UNCHANGED cvars
=============================================================================
