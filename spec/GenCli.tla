------------------------------- MODULE GenCli -------------------------------
(* Exports the invocation matrix of Cli.tla and the input pairs it refers to. *)
EXTENDS Cli, Universe, Json, IOUtils
FieldOrder == [k |-> 0, v |-> 0]   \* must stay the first definition of a root module (JsonValue.tla)

P(a, b) == [a |-> a, b |-> b]
CliPairs == <<
  P(O1("k0", N1), O1("k0", N1)),
  P(O2("k0", Arr(<<N1, N2, N3>>), "k1", S0), O2("k0", Arr(<<N1, N3>>), "k1", S1)),
  P(Arr(<<N1, N2, N3>>), Arr(<<N3, N2, N1>>)),
  P(Arr(<<KObj(N1, N1), KObj(N2, N2)>>), Arr(<<KObj(N2, N3), KObj(N1, N1)>>)),
  P(O1("k0", Num(8)), O1("k0", Num(9))),
  P(O1("k0", O1("k1", Arr(<<N1, O1("k2", N2)>>))), O2("k0", O1("k1", Arr(<<N1, O1("k2", N3)>>)), "k1", Bool(TRUE))),
  P(Arr(<<N1, N1, N2>>), Arr(<<N1, N2, N2>>)),
  P(Void, O1("k0", N1)),
  \* more than 64 KiB on one line, but short arrays at every level (jd's LCS is quadratic in the array length)
  P(Arr([r \in 1..300 |-> Arr([i \in 1..120 |-> Num(8 * ((i + r) % 7))])]),
    Arr([r \in 1..300 |-> Arr([i \in 1..120 |-> Num(8 * ((i + r + (IF r = 150 /\ i = 60 THEN 1 ELSE 0)) % 7))])])),
  \* 10..21: edge pairs
  P(O1("k0", N1), EmptyArr), P(Arr(<<N1, N2>>), EmptyArr), P(N1, EmptyArr), P(Arr(<<N1>>), EmptyObj), P(O1("k0", N1), EmptyObj),
  P(EmptyArr, EmptyObj), P(EmptyObj, EmptyArr), P(N1, Null), P(Null, Bool(FALSE)), P(O1("k0", Str("")), O1("k0", Null)),
  P(Str(""), Num(0)), P(EmptyArr, EmptyArr) >>
PairIds == 1..8       \* pair 9 is the large one, used by BigInvocations only

All == DiffInvocations(PairIds, PairIds \ {6}) \cup ErrorInvocations \cup TransInvocations({2, 6}) \cup BigInvocations(9)
       \cup EdgeInvocations(10..21) \cup InPlaceInvocations({2}) \cup FifoInvocations({2, 7})
ASSUME ndJsonSerialize(IOEnv.JDV_OUT \o "/invocations.ndjson", SetToSeq(All))
ASSUME ndJsonSerialize(IOEnv.JDV_OUT \o "/clipairs.ndjson", CliPairs)
ASSUME PrintT(<<"JDV-STAT", "invocations", Cardinality(All)>>)
GenInit == inv = 0 /\ phase = "done" /\ mode = "none" /\ result = 0
GenNext == UNCHANGED cvars
=============================================================================
