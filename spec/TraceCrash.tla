----------------------------- MODULE TraceCrash -----------------------------
(***************************************************************************)
(* C13: reading arbitrary text and applying any successfully read diff to  *)
(* any document ends in a result or an error value, never in a panic or a  *)
(* hang.  The verdict is crash-freedom only; agreement of accept / reject  *)
(* with the reader automaton and of result / error with the patch machine  *)
(* on these arbitrary inputs is recorded (JDV-NOTE), not judged: a         *)
(* stricter reader is not a violation (DESIGN.md, C13).                    *)
(*   RdLines(lines,st,diff) Apply(c,res)* End                              *)
(*   Wild(h) Apply* WildRender RdLines Apply* End                          *)
(*   RdOps(raw,st,diff) Apply* End     Mut(kind,raw,st) Use* Apply* End    *)
(***************************************************************************)
EXTENDS DiffText, TraceCore
FieldOrder == [k |-> 0, v |-> 0]   \* must stay the first definition of a root module (JsonValue.tla)

CONSTANT Props, KnownDevs
VARIABLE ctx
vars == <<shard, l, doc, rest, status, ctx>>
Keep == UNCHANGED <<doc, rest, status>>
NoCtx == [d |-> <<>>, have |-> FALSE]
Init == CoreInit /\ doc = Void /\ rest = <<>> /\ status = "idle" /\ ctx = NoCtx

Term(st) == st \in {"ok", "err"}

TRdLines ==
  /\ IsEvent("RdLines") /\ Consume /\ Keep
  /\ ctx' = [d |-> Rec.diff, have |-> Rec.st = "ok"]
  /\ Check(Term(Rec.st), "C13", <<"readdiff", Rec.st>>)
  /\ LET m == ReadLines(Rec.lines) IN
     Note(~Term(Rec.st) \/ ((Rec.st = "ok") = m.ok /\ (m.ok => m.diff = Rec.diff)), "C13", "reader-model")
  /\ PrintT(<<"JDV-STAT", IF Rec.st = "ok" THEN "texts_accepted" ELSE "texts_rejected", 1>>)

TWild ==
  /\ IsEvent("Wild") /\ Consume /\ Keep
  /\ ctx' = [d |-> <<Rec.h>>, have |-> TRUE]
TWildRender ==
  /\ IsEvent("WildRender") /\ Consume /\ Keep /\ UNCHANGED ctx
  /\ Check(Rec.st = "ok", "C13", <<"render", Rec.st>>)
TRdOps ==
  /\ IsEvent("RdOps") /\ Consume /\ Keep
  /\ ctx' = [d |-> Rec.diff, have |-> Rec.st = "ok"]
  /\ Check(Term(Rec.st), "C13", <<"readpatch", Rec.st>>)
TMut ==
  /\ IsEvent("Mut") /\ Consume /\ Keep
  /\ ctx' = [d |-> <<>>, have |-> FALSE]
  /\ Check(Term(Rec.st), "C13", <<"read", Rec.kind, Rec.st>>)

(* a document that was read is used: rendered, compared, diffed against another document, patched *)
TUse ==
  /\ IsEvent("Use") /\ Consume /\ Keep /\ UNCHANGED ctx
  /\ Check(Term(Rec.st), "C13", <<"use-document", Rec.kind, Rec.what, Rec.st>>)

TApply ==
  /\ IsEvent("Apply") /\ Consume /\ Keep /\ UNCHANGED ctx
  /\ Check(Term(Rec.res.st), "C13", <<"patch", Rec.res.st>>)
  /\ ctx.have =>
       LET m == ApplyAll(Rec.c, ctx.d) IN
       Note(~Term(Rec.res.st) \/ IsAmb(m) \/ (Rec.res.st = "err") = IsErr(m), "C13", "patch-model")

TEnd == IsEvent("End") /\ Consume /\ Keep /\ ctx' = NoCtx

Next == TRdLines \/ TWild \/ TWildRender \/ TRdOps \/ TMut \/ TUse \/ TApply \/ TEnd \/ (Done /\ UNCHANGED <<doc, rest, status, ctx>>)
Spec == Init /\ [][Next]_vars
=============================================================================
