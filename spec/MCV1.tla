-------------------------------- MODULE MCV1 --------------------------------
(***************************************************************************)
(* Design-level model of the v1 library (C17): the positional list differ  *)
(* (deletions from the highest index down when the array shrinks, -1       *)
(* appends in order when it grows, in-place recursion otherwise) composed  *)
(* with the v1 patch machine: applying the emitted hunks in order to a     *)
(* yields b, for every pair of the family; the emitted index sequences     *)
(* obey PositionalOK; and the RFC 6902 rendering (one test/remove/add      *)
(* group per hunk, no context) evaluates to b.                             *)
(***************************************************************************)
EXTENDS V1, DiffText, Universe
FieldOrder == [k |-> 0, v |-> 0]   \* must stay the first definition of a root module (JsonValue.tla)
VARIABLES x, y, go
vvars == <<x, y, go, doc, rest, status>>

H1(P, rm, ad) == V1Hunk(NodeOfPath(P).v, rm, ad)

RECURSIVE Diff1At(_, _, _)
Diff1At(a, b, P) ==
  IF IsObj(a) /\ IsObj(b) THEN
       LET ka == SetToSeq(Keys(a))  kb == SetToSeq(Keys(b) \ Keys(a))
           RECURSIVE FA(_)
           FA(k) == IF k > Len(ka) THEN <<>>
                    ELSE (IF HasKey(b, ka[k]) THEN Diff1At(a.v[ka[k]], b.v[ka[k]], Append(P, PKey(ka[k])))
                          ELSE <<H1(Append(P, PKey(ka[k])), <<a.v[ka[k]]>>, <<>>)>>) \o FA(k + 1)
           RECURSIVE FB(_)
           FB(k) == IF k > Len(kb) THEN <<>> ELSE <<H1(Append(P, PKey(kb[k])), <<>>, <<b.v[kb[k]]>>)>> \o FB(k + 1)
       IN FA(1) \o FB(1)
  ELSE IF IsArr(a) /\ IsArr(b) THEN
       LET la == Len(a.v)  lb == Len(b.v)
           RECURSIVE Down(_)      \* shrinking or equal length: from the highest index down
           Down(i) == IF i < 0 THEN <<>>
                      ELSE (IF i < lb THEN Diff1At(a.v[i + 1], b.v[i + 1], Append(P, PIdx(i)))
                            ELSE <<H1(Append(P, PIdx(i)), <<a.v[i + 1]>>, <<>>)>>) \o Down(i - 1)
           RECURSIVE Up(_)        \* growing: from index 0 up, the new tail as -1 appends
           Up(i) == IF i >= lb THEN <<>>
                    ELSE (IF i < la THEN Diff1At(a.v[i + 1], b.v[i + 1], Append(P, PIdx(i)))
                          ELSE <<H1(Append(P, PIdx(-1)), <<>>, <<b.v[i + 1]>>)>>) \o Up(i + 1)
       IN IF la < lb THEN Up(0) ELSE Down(la - 1)
  ELSE IF a = b THEN <<>>
  ELSE <<H1(P, NonVoidSeq(<<a>>), NonVoidSeq(<<b>>))>>

Docs == ScalArr(3, 2) \cup {Arr(t) : t \in TuplesUpTo({N1, Arr(<<N1>>), Arr(<<N1, N2>>), O1("k0", N1)}, 2)} \cup ObjFam(2, {N1, Arr(<<N1, N2>>), Arr(<<N2>>)}) \cup {Void, N1}
Init == x \in Docs /\ y \in Docs /\ go = FALSE /\ doc = Void /\ rest = <<>> /\ status = "idle"
Next == go = FALSE /\ go' = TRUE /\ UNCHANGED <<x, y, doc, rest, status>>

(* v1's JSON Patch rendering: per hunk test+remove of the old value, add of the new one, no context *)
Ops1(h) ==
  LET hh == AsHunk(h)  ptr == PointerOf(hh.path) IN
  (IF h.remove # <<>> THEN <<Op("test", ptr, h.remove[1]), Op("remove", ptr, h.remove[1])>> ELSE <<>>)
  \o (IF h.add # <<>> THEN <<Op("add", ptr, h.add[1])>> ELSE <<>>)
RECURSIVE AllOps1(_)
AllOps1(d) == IF d = <<>> THEN <<>> ELSE Ops1(Head(d)) \o AllOps1(Tail(d))

RoundTrip1 == go => LET r == ApplyAllV1(x, Diff1At(x, y, <<>>)) IN ~Bad(r) /\ r = y
Empty1 == go => ((Diff1At(x, y, <<>>) = <<>>) <=> x = y)
Rfc6902 == (go /\ ~IsVoid(x) /\ ~IsVoid(y)) =>
              LET d == Diff1At(x, y, <<>>) IN
              (\A k \in DOMAIN d : PointerOK(AsHunk(d[k]).path)) => Eval(AllOps1(d), x) = y
=============================================================================
