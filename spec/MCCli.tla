------------------------------- MODULE MCCli -------------------------------
(* Design-level check of the process machine: for every invocation of the matrix the phases *)
(* terminate in the result the outcome function predicts, with an exit status in {0, 1, 2}.   *)
EXTENDS Cli
Pairs == 1..2
AllInv == DiffInvocations(Pairs, Pairs) \cup ErrorInvocations \cup TransInvocations(Pairs) \cup BigInvocations(9) \cup EdgeInvocations(10..11) \cup InPlaceInvocations({2}) \cup FifoInvocations({2})
Init == \E i \in AllInv : CliInit(i)
Spec == Init /\ [][CliNext]_cvars
Terminates == <>(phase = "done")
=============================================================================
