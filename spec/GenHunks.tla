------------------------------ MODULE GenHunks ------------------------------
(***************************************************************************)
(* Hunk shapes built from the public DiffElement fields (C02, C13):        *)
(* path kinds x before/after in {absent, boundary, value} x 0..2 removes   *)
(* x 0..2 adds x merge flag.  Exports the well-formed ones (for the        *)
(* carrier property) and all of them (for crash-freedom).                  *)
(***************************************************************************)
EXTENDS DiffText, JsonPatch, Json, IOUtils
FieldOrder == [k |-> 0, v |-> 0]   \* must stay the first definition of a root module (JsonValue.tla)

N1 == Num(8)
N2 == Num(16)
S0 == Str("s0")
IdObj == [x \in {"id"} |-> N1]

Paths == { <<>>, <<PKey("k0")>>, <<PIdx(1)>>, <<PKey("k0"), PIdx(0)>>, <<PSet>>, <<PKey("k0"), PSet>>,
           <<PMset>>, <<PSetKeys(IdObj), PKey("v")>>, <<PIdx(0), PKey("k0")>> }
WildPaths == Paths \cup
         { <<PIdx(-1)>>, <<PIdx(-2)>>, <<PIdx(7)>>, <<PIdx(0), PIdx(-2)>>, <<PIdx(7), PIdx(0)>>, <<PKey("k0"), PIdx(7)>>,
           <<PMsetKeys(IdObj)>>, <<PSetKeys(IdObj)>>, <<PSet, PKey("k0")>>, <<PMset, PIdx(0)>>, <<PSetKeys(IdObj), PIdx(0)>>,
           <<PKey("k0"), PKey("k1")>>, <<PMsetKeys(IdObj), PKey("v")>> }
Ctx == { <<>>, <<Void>>, <<N1>> }
WildCtx == Ctx \cup { <<N1, N2>>, <<Void, N1>>, <<N1, Void>> }
Vals == { <<>>, <<N1>>, <<S0>>, <<N1, N2>>, <<Arr(<<N1>>)>>, <<Obj([x \in {"k0"} |-> N1])>> }
AddVals == Vals \cup { <<Void>> }

AllHunks == { Hunk(m, p, bf, rm, ad, af) :
                m \in BOOLEAN, p \in Paths, bf \in Ctx, rm \in Vals, ad \in AddVals, af \in Ctx }
WildHunks == { Hunk(m, p, bf, rm, ad, af) :
                m \in BOOLEAN, p \in WildPaths, bf \in WildCtx, rm \in AddVals, ad \in AddVals, af \in WildCtx }
WF == { h \in AllHunks : WellFormedHunk(h) }

(* ---- line kinds for arbitrary diff texts (C13): 8 header classes x payload classes ---- *)
PathNodes == { EmptyArr, Arr(<<Str("k0")>>), Arr(<<Num(0)>>), Arr(<<Num(8)>>), Arr(<<Num(-8)>>), Arr(<<Num(12)>>), Arr(<<EmptyObj>>),
               Arr(<<EmptyArr>>), Arr(<<Obj(IdObj)>>), Arr(<<Obj(IdObj), Str("v")>>), Arr(<<Arr(<<Obj(IdObj)>>)>>), Arr(<<Str("k0"), Num(0)>>),
               Arr(<<Bool(TRUE)>>), Arr(<<Arr(<<N1, N2>>)>>), N1, EmptyObj }
LineKinds ==
  {Line("^", p) : p \in {Void, MergeMeta, EmptyObj, N1, Obj([x \in {"Merge"} |-> N1]), Obj([x \in {"Other"} |-> Bool(TRUE)]), Invalid}}
  \cup {Line("@", p) : p \in PathNodes \cup {Void, Invalid}}
  \cup {Line(h, p) : h \in {"[", "]"}, p \in {Void, N1}}
  \cup {Line(h, p) : h \in {" ", "-", "+"}, p \in {Void, N1, Arr(<<N1>>), Obj([x \in {"k0"} |-> N1]), Invalid}}
  \cup {Line("x", N1), Line("{", Void)}

(* ---- operations for arbitrary JSON Patch documents (C13) ---- *)
TokPaths == { <<>>, <<IdxTok(0)>>, <<IdxTok(1)>>, <<IdxTok(7)>>, <<DashTok>>, <<Tok("k0", -1)>>, <<Tok("k0", -1), IdxTok(0)>>,
              <<IdxTok(0), IdxTok(0)>>, <<Tok("-1", -1)>> }
OpKinds == { [op |-> o, path |-> p, value |-> x, from |-> <<>>, wf |-> TRUE] :
               o \in {"test", "remove", "add", "replace", "move", "bogus"}, p \in TokPaths, x \in {N1, NoVal} }

Dir == IOEnv.JDV_OUT
ASSUME ndJsonSerialize(Dir \o "/linekinds.ndjson", SetToSeq(LineKinds))
ASSUME ndJsonSerialize(Dir \o "/opkinds.ndjson", SetToSeq(OpKinds))
ASSUME PrintT(<<"JDV-STAT", "line_kinds", Cardinality(LineKinds)>>)
ASSUME PrintT(<<"JDV-STAT", "op_kinds", Cardinality(OpKinds)>>)
ASSUME ndJsonSerialize(Dir \o "/hunks_wf.ndjson", SetToSeq(WF))
ASSUME ndJsonSerialize(Dir \o "/hunks_wild.ndjson", SetToSeq(WildHunks))
ASSUME PrintT(<<"JDV-STAT", "wf_hunks", Cardinality(WF)>>)
ASSUME PrintT(<<"JDV-STAT", "wild_hunks", Cardinality(WildHunks)>>)
GenInit == doc = Void /\ rest = <<>> /\ status = "ok"
GenNext == UNCHANGED pvars
=============================================================================
