"""Orchestration: scratch dirs, TLC and harness invocation, verdict parsing,
known findings, evidence.  No jd semantics lives here."""
import sys, os, json, subprocess, shutil, tempfile, time, re, hashlib, glob

VERIF = os.path.dirname(os.path.dirname(os.path.abspath(__file__)))
SPEC = os.path.join(VERIF, "spec")
BUILD = os.path.join(VERIF, "build")
UNIVERSE = os.path.join(BUILD, "universe")
REPLAYS = os.path.join(os.environ["JDV_EVIDENCE_DIR"], "replays") if os.environ.get("JDV_EVIDENCE_DIR") else os.path.join(VERIF, "replays")
EVIDENCE = os.environ.get("JDV_EVIDENCE_DIR") or os.path.join(VERIF, "evidence")   # development runs write elsewhere
TLA_CP = "/opt/veriftools/tla/tla2tools.jar:/opt/veriftools/tla/CommunityModules-deps.jar"
NSHARDS = 16
# /repo unless a development run points the machinery at a scratch worktree (seeded-change testing in parallel)
REPO = os.environ.get("JDV_REPO", "/repo")

GOENV = dict(GOFLAGS="-mod=mod", GOPROXY="off", GOSUMDB="off", GOTOOLCHAIN="local")


class Infra(Exception):
    """infrastructure failure: exit 2, never a violation"""


def log(*a):
    print("[check]", *a, file=sys.stderr, flush=True)


# --------------------------------------------------------------------------- scratch
class Scratch:
    def __init__(self, keep=False):
        base = os.environ.get("JDV_SCRATCH_BASE") or tempfile.gettempdir()
        self.dir = tempfile.mkdtemp(prefix="jdv-", dir=base)
        self.keep = keep

    def sub(self, name):
        p = os.path.join(self.dir, name)
        os.makedirs(p, exist_ok=True)
        return p

    def close(self):
        if not self.keep:
            shutil.rmtree(self.dir, ignore_errors=True)
        else:
            log("scratch kept at", self.dir)


# --------------------------------------------------------------------------- TLC
TLC_NOISE = re.compile(r"^(Parsing file|Semantic processing|Linting of|$)")


def run_tlc(scratch, module, cfg_text, env=None, workers=NSHARDS, timeout=3600, extra=None, tag=None):
    """Runs TLC on spec/<module>.tla with the given cfg text in a scratch copy of the
    spec directory.  Returns dict(out=lines, rc, generated, distinct, wall)."""
    tag = tag or module
    wd = scratch.sub("tlc-" + tag)
    for f in glob.glob(os.path.join(SPEC, "*.tla")):
        shutil.copy(f, wd)
    with open(os.path.join(wd, module + ".cfg"), "w") as f:
        f.write(cfg_text)
    e = dict(os.environ)
    e.update(env or {})
    e.pop("JAVA_TOOL_OPTIONS", None)
    cmd = ["timeout", str(timeout), "java", "-Xss512m", "-Xmx12g", "-XX:+UseParallelGC", "-XX:ParallelGCThreads=4",
           "-Djava.io.tmpdir=" + wd, "-cp", TLA_CP, "tlc2.TLC", "-workers", str(workers),
           "-metadir", os.path.join(wd, "md"), "-config", module + ".cfg"] + (extra or []) + [module + ".tla"]
    t0 = time.time()
    p = subprocess.run(cmd, cwd=wd, env=e, stdout=subprocess.PIPE, stderr=subprocess.STDOUT, text=True)
    wall = time.time() - t0
    lines = [ln for ln in p.stdout.splitlines() if not TLC_NOISE.match(ln)]
    with open(os.path.join(wd, "tlc.out"), "w") as f:
        f.write(p.stdout)
    res = dict(out=lines, rc=p.returncode, wall=wall, generated=0, distinct=0, wd=wd)
    for ln in lines:
        m = re.match(r"^(\d+) states generated, (\d+) distinct states found", ln)
        if m:
            res["generated"], res["distinct"] = int(m.group(1)), int(m.group(2))
    return res


def tlc_ok(res):
    return res["rc"] == 0 and any("Model checking completed. No error has been found." in ln for ln in res["out"])


def tlc_error_text(res, n=40):
    keep = [ln for ln in res["out"] if not ln.startswith("<<\"JDV-")]
    return "\n".join(keep[-n:])


TUPLE = re.compile(r'^<<\s*"JDV-(FAIL|NOTE|DONE|KNOWN|STAT)",\s*(.*)>>$')


def join_wrapped(lines):
    """TLC wraps long printed tuples over several lines: glue them back together"""
    out, buf = [], None
    for ln in lines:
        t = ln.strip()
        if buf is None:
            if re.match(r'^<<\s*"JDV-', t):
                buf = t
            else:
                out.append(ln)
                continue
        else:
            buf += " " + t
        if buf.count("<<") <= buf.count(">>"):
            out.append(re.sub(r"\s+", " ", buf).replace("<< ", "<<").replace(" >>", ">>"))
            buf = None
    if buf is not None:
        out.append(buf)
    return out


def parse_verdicts(lines):
    """JDV lines -> dict(fail=[(sess, prop, clause)], note=[...], known=[...], done={shard: n}, stat={})"""
    lines = join_wrapped(lines)
    out = dict(fail=[], note=[], known=[], done={}, stat={})
    for ln in lines:
        m = TUPLE.match(ln.strip())
        if not m:
            continue
        kind, rest = m.group(1), m.group(2)
        if kind == "DONE":
            a, b = rest.split(",")[:2]
            out["done"][int(a)] = int(b)
            continue
        if kind == "STAT":
            name, val = rest.split(",", 1)
            name = name.strip().strip('"')
            out["stat"][name] = out["stat"].get(name, 0) + int(val.strip())
            continue
        parts = rest.split(",", 2)
        sess = int(parts[0])
        prop = parts[1].strip().strip('"')
        clause = parts[2].strip() if len(parts) > 2 else ""
        clause = clause.replace('"', "").replace("<<", "").replace(">>", "").replace(" ", "")
        out[kind.lower()].append((sess, prop, clause))
    return out


# --------------------------------------------------------------------------- universe / harness
def ensure_universe(force=False):
    marker = os.path.join(UNIVERSE, "DONE")
    src = [os.path.join(SPEC, f) for f in ("Universe.tla", "GenUniverse.tla", "JsonValue.tla", "GenHunks.tla", "DiffText.tla", "Patch.tla", "JsonPatch.tla", "Api.tla", "GenApi.tla", "Cli.tla", "GenCli.tla")]
    stamp = hashlib.sha256(b"".join(open(f, "rb").read() for f in src)).hexdigest()
    if not force and os.path.exists(marker) and open(marker).read().strip() == stamp:
        return
    log("exporting document universe with TLC ...")
    os.makedirs(UNIVERSE, exist_ok=True)
    for f in glob.glob(os.path.join(UNIVERSE, "*")):
        os.remove(f)
    sc = Scratch()
    try:
        r = run_tlc(sc, "GenUniverse", "", env={"JDV_OUT": UNIVERSE}, workers=1, timeout=1200)
        if not tlc_ok(r):
            raise Infra("universe export failed:\n" + tlc_error_text(r))
        r = run_tlc(sc, "GenHunks", "INIT GenInit\nNEXT GenNext\n", env={"JDV_OUT": UNIVERSE}, workers=1, timeout=1200)
        if not tlc_ok(r):
            raise Infra("hunk export failed:\n" + tlc_error_text(r))
        r = run_tlc(sc, "GenApi", "INIT ApiInit\nNEXT ApiNext\nCONSTANT MaxLen = 0\nCHECK_DEADLOCK FALSE\n", env={"JDV_OUT": UNIVERSE}, workers=1, timeout=600)
        if not tlc_ok(r):
            raise Infra("history export failed:\n" + tlc_error_text(r))
        r = run_tlc(sc, "GenCli", "INIT GenInit\nNEXT GenNext\n", env={"JDV_OUT": UNIVERSE}, workers=1, timeout=600)
        if not tlc_ok(r):
            raise Infra("invocation export failed:\n" + tlc_error_text(r))
    finally:
        sc.close()
    with open(marker, "w") as f:
        f.write(stamp)


def ensure_edits(seed, n, depth):
    """behaviours of the DocEdit machine under tlc -simulate (seeded by VERIF_SEED), as a paired family"""
    name = "edits_%d_%d_%d" % (seed, n, depth)
    path = os.path.join(UNIVERSE, name + ".ndjson")
    if os.path.exists(path):
        return name
    sc = Scratch()
    try:
        out = sc.sub("edits")
        cfg = "SPECIFICATION Spec\nCONSTANT MaxEdits = %d\nINVARIANT WriteOut\nCHECK_DEADLOCK FALSE\n" % depth
        r = run_tlc(sc, "DocEdit", cfg, env={"JDV_OUT": out}, workers=4, timeout=900,
                    extra=["-simulate", "num=%d" % max(1, n // 40), "-depth", str(depth + 2), "-seed", str(seed)])
        src = os.path.join(out, "edits.csv")
        if not os.path.exists(src):
            raise Infra("DocEdit simulation produced nothing:\n" + tlc_error_text(r))
        seen, lines = set(), []
        for ln in open(src):
            ln = ln.strip()
            if not ln or ln in seen:
                continue
            seen.add(ln)
            lines.append(json.dumps(json.loads(json.loads(ln))))
        import random
        random.Random(seed).shuffle(lines)         # TLC writes every successor it looks at: take a seeded sample
        with open(path + ".tmp", "w") as f:
            f.write("\n".join(lines[:n]) + "\n")
        os.replace(path + ".tmp", path)
        log("DocEdit: %d behaviours (seed %d, %d edits)" % (min(len(lines), n), seed, depth))
    finally:
        sc.close()
    return name


def build_harness(scratch):
    """Builds the harness against /repo's CURRENT working tree into the scratch dir."""
    hd = os.path.join(scratch.dir, "harness")
    shutil.copytree(os.path.join(VERIF, "harness"), hd)
    sums = set()
    gm = open(os.path.join(hd, "go.mod")).read().replace("=> /repo/v2", "=> %s/v2" % REPO).replace("=> /repo\n", "=> %s\n" % REPO)
    with open(os.path.join(hd, "go.mod"), "w") as f:
        f.write(gm)
    for p in (REPO + "/go.sum", REPO + "/v2/go.sum"):
        if os.path.exists(p):
            sums.update(open(p).read().splitlines())
    with open(os.path.join(hd, "go.sum"), "w") as f:
        f.write("\n".join(sorted(s for s in sums if s.strip())) + "\n")
    e = dict(os.environ)
    e.update(GOENV)
    out = os.path.join(scratch.dir, "jdv")
    p = subprocess.run(["go1.26", "build", "-tags", "verif", "-o", out, "./cmd/jdv"], cwd=hd, env=e,
                       stdout=subprocess.PIPE, stderr=subprocess.STDOUT, text=True)
    if p.returncode != 0:
        raise Infra("harness build failed (does /repo compile?):\n" + p.stdout[-4000:])
    return out


def build_binaries(scratch):
    """Builds the jd binaries from /repo's working tree: v2/jd and the top-level one."""
    e = dict(os.environ)
    e.update(GOENV)
    bins = {}
    for name, cwd, pkg in (("v2", REPO + "/v2", "./jd"), ("top", REPO, ".")):
        out = os.path.join(scratch.dir, "jd-" + name)
        p = subprocess.run(["go1.26", "build", "-o", out, pkg], cwd=cwd, env=e,
                           stdout=subprocess.PIPE, stderr=subprocess.STDOUT, text=True)
        if p.returncode != 0:
            raise Infra("building %s failed:\n%s" % (name, p.stdout[-4000:]))
        bins[name] = out
    return bins


class FatalInJd(Exception):
    """the driver process was killed by a Go runtime fatal error (stack overflow, concurrent map access ...) raised
    while jd's own code was running: behaviour of the real code that no recover() can turn into a trace record"""
    def __init__(self, driver, output):
        Exception.__init__(self, "fatal error inside jd while driving %s" % driver)
        self.driver, self.output = driver, output


def fatal_in_jd(out):
    """True iff the output is a Go runtime 'fatal error' whose running goroutine was executing jd code
    (its first frame outside package runtime belongs to github.com/josephburnett/jd)"""
    if "fatal error:" not in out:
        return False
    lines = out.splitlines()
    for i, ln in enumerate(lines):
        if re.match(r"^goroutine \d+ .*\[running", ln):
            for fn in lines[i + 1:i + 400]:
                if fn.startswith("goroutine "):
                    break
                # the innermost frame that is not the Go runtime / standard library (those packages have no domain or module prefix)
                if fn.startswith(("github.com/", "gopkg.in/", "golang.org/", "jdv/", "main.")):
                    return fn.startswith("github.com/josephburnett/jd")
            return False
    return False


def run_driver(scratch, jdv, plan, tag):
    td = scratch.sub("trace-" + tag)
    plan = dict(plan)
    plan.update(out=td, universe=UNIVERSE, shards=NSHARDS)
    pf = os.path.join(scratch.dir, "plan-%s.json" % tag)
    with open(pf, "w") as f:
        json.dump(plan, f)
    t0 = time.time()
    # temporary files of the driver (documents entering through ReadJsonFile ...) live and die with the scratch directory
    tmpd = scratch.sub("tmp-" + tag)
    p = subprocess.run([jdv, pf], stdout=subprocess.PIPE, stderr=subprocess.STDOUT, text=True, env=dict(os.environ, TMPDIR=tmpd))
    shutil.rmtree(tmpd, ignore_errors=True)
    if p.returncode != 0:
        if fatal_in_jd(p.stdout):
            raise FatalInJd(plan["driver"], p.stdout)
        raise Infra("driver %s failed:\n%s" % (plan["driver"], p.stdout[-4000:]))
    summ = json.load(open(os.path.join(td, "summary.json")))
    summ["wall"] = time.time() - t0
    summ["dir"] = td
    return summ


def session_records(trace_dir, sess):
    """All records of one session (it lives in shard sess % NSHARDS)."""
    out = []
    with open(os.path.join(trace_dir, "shard%d.ndjson" % (sess % NSHARDS))) as f:
        for ln in f:
            if ('"sess":%d,' % sess) in ln or ('"sess":%d}' % sess) in ln:
                out.append(json.loads(ln))
    return out


def first_sessions(trace_dir, n=3, shard=1):
    """The first n sessions of a shard, for the evidence samples."""
    out, cur, seen = [], None, 0
    try:
        with open(os.path.join(trace_dir, "shard%d.ndjson" % shard)) as f:
            for ln in f:
                r = json.loads(ln)
                if r.get("sess") != cur:
                    cur = r.get("sess")
                    seen += 1
                    if seen > n:
                        break
                    out.append([])
                out[-1].append(r)
    except FileNotFoundError:
        pass
    return out


# --------------------------------------------------------------------------- judging a trace
JUDGE_BYTES = 48 << 20      # one TLC run holds its whole trace in memory (about 40x the JSON text): larger traces are judged in parts


def split_trace(scratch, trace, tag, parts):
    """cuts every shard at session boundaries into `parts` consecutive pieces; returns the list of part traces"""
    dirs = [scratch.sub("trace-%s-part%d" % (tag, j)) for j in range(parts)]
    counts = [0] * parts
    for k in range(NSHARDS):
        src = os.path.join(trace["dir"], "shard%d.ndjson" % k)
        size = os.path.getsize(src)
        outs = [open(os.path.join(d, "shard%d.ndjson" % k), "w") for d in dirs]
        j, done, cur = 0, 0, None
        with open(src) as f:
            for ln in f:
                m = re.search(r'"sess":(-?\d+)', ln)
                sess = m.group(1) if m else None
                if sess != cur:
                    cur = sess
                    while j < parts - 1 and done >= (j + 1) * size / parts:
                        j += 1
                outs[j].write(ln)
                counts[j] += 1
                done += len(ln)
        for o in outs:
            o.close()
    return [dict(dir=d, records=c) for d, c in zip(dirs, counts)]


def judge(scratch, module, props, trace, tag, constants=None, timeout=3600):
    size = sum(os.path.getsize(os.path.join(trace["dir"], "shard%d.ndjson" % k)) for k in range(NSHARDS))
    parts = max(1, -(-size // JUDGE_BYTES))
    if parts == 1:
        return judge_one(scratch, module, props, trace, tag, constants, timeout)
    out = dict(fail=[], known=[], note=[], stat={}, done={}, tlc=dict(distinct=0, generated=0, wall=0.0, out=[]))
    for j, part in enumerate(split_trace(scratch, trace, tag, parts)):
        v = judge_one(scratch, module, props, part, "%s-part%d" % (tag, j), constants, timeout)
        shutil.rmtree(part["dir"], ignore_errors=True)
        for kind in ("fail", "known", "note"):
            out[kind] += v[kind]
        for k, n in v["stat"].items():
            out["stat"][k] = out["stat"].get(k, 0) + n
        for k, n in v["done"].items():
            out["done"][k] = out["done"].get(k, 0) + n
        for k in ("distinct", "generated", "wall"):
            out["tlc"][k] += v["tlc"][k]
    if sum(out["done"].values()) != trace["records"]:
        raise Infra("trace validation in %d parts consumed %d of %d records" % (parts, sum(out["done"].values()), trace["records"]))
    return out


def judge_one(scratch, module, props, trace, tag, constants=None, timeout=3600):
    cfg = "SPECIFICATION Spec\nCHECK_DEADLOCK FALSE\nPOSTCONDITION TraceAccepted\n"
    cfg += "CONSTANT Props = {%s}\n" % ", ".join('"%s"' % p for p in props)
    for k, v in (constants or {}).items():
        cfg += "CONSTANT %s = %s\n" % (k, v)
    r = run_tlc(scratch, module, cfg, env={"JDV_TRACE": trace["dir"]}, tag=tag, timeout=timeout)
    v = parse_verdicts(r["out"])
    consumed = sum(v["done"].values())
    if not tlc_ok(r):
        raise Infra("trace validation (%s) did not complete:\n%s" % (module, tlc_error_text(r)))
    for kind in ("FAIL", "KNOWN", "NOTE"):
        raw = sum(ln.count('"JDV-%s"' % kind) for ln in r["out"])
        if raw != len(v[kind.lower()]):
            raise Infra("verdict parser saw %d of %d JDV-%s lines" % (len(v[kind.lower()]), raw, kind))
    if consumed != trace["records"] or len(v["done"]) != NSHARDS:
        raise Infra("trace validation consumed %d of %d records" % (consumed, trace["records"]))
    v["tlc"] = r
    return v


# --------------------------------------------------------------------------- known findings
def load_known():
    p = os.path.join(VERIF, "known_findings.json")
    if not os.path.exists(p):
        return []
    return json.load(open(p)).get("findings", [])


# --------------------------------------------------------------------------- evidence
def write_evidence(prop, tier, seed, level, coverage, wall, violations, assumptions):
    os.makedirs(EVIDENCE, exist_ok=True)
    ev = dict(property_id=prop, tier=tier, seed=seed, level=level, coverage=coverage,
              assumptions=assumptions, wall_s=round(wall, 2), violations=violations)
    tmp = os.path.join(EVIDENCE, prop + ".json.tmp")
    with open(tmp, "w") as f:
        json.dump(ev, f, indent=1, sort_keys=True)
    os.replace(tmp, os.path.join(EVIDENCE, prop + ".json"))


def write_replay(prop, clause, records, extra=None):
    os.makedirs(REPLAYS, exist_ok=True)
    body = dict(property=prop, clause=clause, records=records)
    body.update(extra or {})
    blob = json.dumps(body, sort_keys=True)
    h = hashlib.sha256(blob.encode()).hexdigest()[:12]
    path = os.path.join(REPLAYS, "%s-%s.json" % (prop, h))
    with open(path, "w") as f:
        f.write(blob)
    return path


# --------------------------------------------------------------------------- main
def main(argv):
    import props
    if not argv:
        print(__doc__)
        return 2
    cmd = argv[0]
    keep = "--keep" in argv
    argv = [a for a in argv if a != "--keep"]
    try:
        if cmd == "setup":
            ensure_universe(force="--force" in argv)
            return props.selftest()
        if cmd == "design":
            return props.run_design_cli(argv[1:], keep)
        prop = cmd
        if prop not in props.CHECKS:
            print("unknown property", prop)
            return 2
        if len(argv) >= 3 and argv[1] == "--replay":
            return props.replay(prop, argv[2], keep)
        tier = argv[1] if len(argv) > 1 else os.environ.get("VERIF_TIER", "quick")
        seed = int(os.environ.get("VERIF_SEED", "1"))
        return props.run_check(prop, tier, seed, keep)
    except Infra as e:
        print("INFRASTRUCTURE FAILURE:", e, file=sys.stderr)
        return 2
