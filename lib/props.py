"""Per-property configuration: scenario plans (which universes, options, sampling),
which trace specification judges them, which design-level models are checked."""
import os, sys, json, time
import jdvlib as L
from jdvlib import Infra, log


def O(**kw):
    d = dict(set=False, mset=False, keys=[], merge=False, eps=0)
    d.update(kw)
    return d


NONE, SET, MSET = O(), O(set=True), O(mset=True)
MERGE, SETMERGE, MSETMERGE = O(merge=True), O(set=True, merge=True), O(mset=True, merge=True)
KEYS = O(keys=["id"])
SETKEYS = O(set=True, keys=["id"])     # v1: Setkeys alone leaves arrays lists; the keyed reading is SET + Setkeys
KEYS2 = O(keys=["from", "to"])


def item(family, opts, frac=1.0, void=True, **kw):
    d = dict(family=family, opts=opts, frac=frac, void=void, nf=bool(opts.get("merge")))
    d.update(kw)
    return d


# --------------------------------------------------------------------------- plans
def plan_dp(tier, seed, props):
    """diff-then-patch sessions (C01, C05, C06, C07)."""
    q = tier == "quick"
    items = []
    listonly = set(props) <= {"C06"}
    # list mode: exhaustive small families
    items += [item("scalarr_4_3" if q else "scalarr_5_3", NONE, 0.35 if q else 0.5),
              item("nestarr_2", NONE, 0.35 if q else 1.0),
              item("obj_2", NONE, 0.3 if q else 1.0),
              item("deep", NONE, 0.12 if q else 1.0),
              item("deepobj", NONE, 0.5 if q else 1.0),
              item("deeparr", NONE, 0.15 if q else 1.0),
              item("keyed_2", NONE, 0.5 if q else 1.0)]
    if not q:
        items += [item("scalarr_7_2", NONE, 0.5), item("nestarr_3", NONE, 0.05), item("obj_3", NONE, 0.3),
                  item("keyed_3", NONE, 1.0)]
    # behaviours of the DocEdit machine: long arrays, deep nesting, several independent edits
    for depth, n in ((3, 400 if q else 6000), (5, 300 if q else 6000)):
        items += [dict(family=L.ensure_edits(seed, n, depth), opts=NONE, frac=1.0, void=False, nf=False, mode="paired")]
    # every kind of value; sibling containers with same-named array children
    items += [item("kinds", NONE, 0.06 if q else 0.5), item("siblings", NONE, 0.3 if q else 1.0)]
    # sizes beyond any small threshold: 17- and 33-element arrays, 20-member objects
    items += [item("wide40", NONE, 1.0, False), item("wide40", MERGE, 1.0, False),
              item("long_root", NONE, 0.2 if q else 1.0, False), item("long_key", NONE, 0.2 if q else 1.0, False),
              item("long_elem", NONE, 0.2 if q else 1.0, False), item("wide", NONE, 1.0, False)]
    # the second document spells its zeros -0 (the same number: nothing changes for the specification)
    items += [item("kinds", NONE, 0.03 if q else 0.3, mode="negzero")]
    if listonly:
        items += [item("huge2", NONE, 0.35 if q else 1.0, False)]
        if not q:
            items += [item("huge", NONE, 1.0, False)]
        return items
    if "C07" in props or not q:
        items += [item("huge", NONE, 1.0, False)]       # 2100-element arrays: thresholds in the thousands
    # 4300-element arrays (an LCS table of 18 million cells): the cheap judges only (round trip, emptiness, no value both removed and added)
    items += [item("huge2", NONE, 0.35 if q else 1.0, False)]
    items += [item("kinds", o, 0.015 if q else 0.15, mode="negzero") for o in (SET, MSET, MERGE)]
    others = [SET, MSET, MERGE, SETMERGE, MSETMERGE]
    for o in others:
        items += [item("kinds", o, 0.015 if q else 0.15), item("siblings", o, 0.05 if q else 0.5),
                  item("long_key", o, 0.04 if q else 0.4, False), item("wide", o, 0.3 if q else 1.0, False)]
    for o in others:
        f = 0.04 if q else 0.25
        items += [item("scalarr_4_3", o, f), item("nestarr_2", o, f), item("obj_2", o, f * 1.5),
                  item("deep", o, f / 2), item("deepobj", o, f * 2)]
        if not q:
            items += [item("obj_3", o, 0.05), item("nestarr_3", o, 0.01)]
    items += [item("keyed2k", KEYS2, 0.5 if q else 1.0)]
    for o in (KEYS, SET, MSET, O(keys=["id"], merge=True)):
        items += [item("keyed_2", o, 0.6 if q else 1.0), item("keyeddeep", o, 1.0), item("keyedcont", o, 0.4 if q else 1.0),
                  item("keyedwide", o, 0.3 if q else 1.0)]
        if not q:
            items += [item("keyed_3", o, 0.5)]
    if "C05" in props or "C07" in props:
        for o in (MERGE, SETMERGE):
            items += [dict(family="obj_2", opts=o, frac=0.2 if q else 1.0, void=True, nf=False),
                      dict(family="mergedocs", opts=o, frac=0.08 if q else 0.6, void=False, nf=False)]
    if "C05" in props:
        for eps in (4, 8):
            items += [item("scalarr_4_3", O(eps=eps), 0.03 if q else 0.2), item("obj_2", O(eps=eps), 0.05 if q else 0.3),
                      item("nestarr_2", O(eps=eps), 0.03 if q else 0.2)]
    return items


def plan_pt(tier, seed, props):
    q = tier == "quick"
    items = []
    if "C03" in props:
        items += [dict(family=L.ensure_edits(seed, 400 if q else 6000, 3), opts=NONE, frac=1.0, void=False, nf=False, mode="paired", max=8)]
        items += [item("scalarr_4_3", NONE, 0.08 if q else 0.6, False, max=8 if q else 14),
                  item("nestarr_2", NONE, 0.08 if q else 0.6, False, max=8 if q else 14),
                  item("deep", NONE, 0.06 if q else 0.6, False, max=8 if q else 14),
                  item("obj_2", NONE, 0.1 if q else 0.6, False, max=6 if q else 10),
                  item("kinds", NONE, 0.02 if q else 0.2, False, max=6 if q else 10), item("siblings", NONE, 0.1 if q else 0.6, False, max=8),
                  item("long_key", NONE, 0.04 if q else 0.4, False, max=6), item("long_root", NONE, 0.04 if q else 0.4, False, max=6),
                  item("wide", NONE, 0.3 if q else 1.0, False, max=6)]
        if not q:
            items += [item("scalarr_5_3", NONE, 0.05, False, max=10), item("keyed_2", NONE, 0.5, False, max=10)]
    if "C08" in props:
        for o in (SET, MSET):
            items += [item("scalarr_4_3", o, 0.05 if q else 0.4, False, max=10, mode="whole"),
                      item("nestarr_2", o, 0.05 if q else 0.4, False, max=10, mode="whole"),
                      item("keyed_2", o, 0.4 if q else 1.0, False, max=10, mode="whole"),
                      item("deep", o, 0.03 if q else 0.3, False, max=10, mode="whole"),
                      item("kinds", o, 0.02 if q else 0.2, False, max=10, mode="whole"),
                      item("long_key", o, 0.03 if q else 0.3, False, max=8, mode="whole")]
        items += [item("keyednull", KEYS, 1.0, False, max=14, mode="whole"),
                  item("keyed_2", KEYS, 1.0, False, max=12, mode="whole"),
                  item("keyeddeep", KEYS, 1.0, False, max=12, mode="whole"),
                  item("keyedcont", KEYS, 0.5 if q else 1.0, False, max=10, mode="whole"),
                  item("keyedwide", KEYS, 0.3 if q else 1.0, False, max=10, mode="whole"),
                  item("keyed2k", KEYS2, 0.5 if q else 1.0, False, max=14, mode="whole")]
        if not q:
            items += [item("keyed_3", KEYS, 0.4, False, max=12, mode="whole")]
    return items


def plan_eq(tier, seed, props):
    q = tier == "quick"
    items = []
    opts = [NONE, SET, MSET, KEYS, O(eps=1), O(eps=4), O(eps=8)]
    for o in opts:
        items += [item("confusable", o, 1.0, True),
                  item("scalarr_4_3", o, 0.15 if q else 1.0, False),
                  item("nestarr_2", o, 0.15 if q else 1.0, False),
                  item("obj_2", o, 0.3 if q else 1.0, False),
                  item("keyed_2", o, 0.5 if q else 1.0, False),
                  item("deep", o, 0.05 if q else 0.5, False), item("kinds", o, 0.1 if q else 1.0, True),
                  item("long_root", o, 0.2 if q else 1.0, False), item("long_elem", o, 0.1 if q else 1.0, False), item("wide", o, 1.0, False)]
        items += [item("kinds", o, 0.05 if q else 0.5, True, mode="negzero"), item("confusable", o, 1.0, True, mode="negzero")]
        if not q:
            items += [item("scalarr_5_3", o, 0.3, False), item("keyed_3", o, 0.5, False), item("obj_3", o, 0.2, False),
                      item("nestarr_3", o, 0.03, False)]
    return items


def plan_tx(tier, seed, props):
    q = tier == "quick"
    items = []
    for o, f in ((NONE, 0.1 if q else 0.6), (SET, 0.03 if q else 0.2), (MSET, 0.03 if q else 0.2), (MERGE, 0.03 if q else 0.2),
                 (SETMERGE, 0.02 if q else 0.2), (MSETMERGE, 0.02 if q else 0.2)):
        items += [item("scalarr_4_3", o, f), item("nestarr_2", o, f), item("obj_2", o, f), item("deep", o, f / 2)]
    for o in (KEYS, O(keys=["id"], merge=True)):
        items += [item("keyed_2", o, 0.5 if q else 1.0), item("keyeddeep", o, 1.0), item("keyedcont", o, 0.3 if q else 1.0), item("keyedwide", o, 0.2 if q else 1.0)]
    items += [item("strdocs", NONE, 0.5 if q else 1.0), item("kinds", NONE, 0.04 if q else 0.4), item("siblings", NONE, 0.15 if q else 1.0),
              item("kinds", MERGE, 0.02 if q else 0.2), item("kinds", SET, 0.02 if q else 0.2),
              item("long_key", NONE, 0.1 if q else 1.0, False), item("wide", NONE, 0.5 if q else 1.0, False), item("wide", MERGE, 0.3 if q else 1.0, False)]
    items += [dict(family="hunks_wf", opts=NONE, frac=1.0, void=False, mode="built", max=4000 if q else 30000, nf=False)]
    return items


def plan_tx_built(tier, seed, props):
    """C13: sequences of well-formed hunks built from fields (pairs and triples: a later hunk may descend into what an earlier one
    added), rendered, read back and applied - judged for crashes only"""
    q = tier == "quick"
    return [dict(family="hunks_wf", opts=NONE, frac=0.25 if q else 1.0, void=False, mode="built", max=2500 if q else 20000, nf=False)]


class Stage:
    def __init__(self, driver, module, planfn, props=None, bins=False, table="plain", yaml_every=8, extra=None, followup=None, scale=1.0):
        self.driver, self.module, self.planfn = driver, module, planfn
        self.scale = scale        # < 1: a content stage - the same plan, sampled, under a table of hostile strings / keys / numbers
        self.props, self.bins, self.table, self.yaml_every, self.extra = props, bins, table, yaml_every, extra or {}
        self.followup = followup


def table_path(name):
    return name if name == "plain" else os.path.join(L.VERIF, "tables", name + ".json")


def plan_jp(tier, seed, props):
    q = tier == "quick"
    items = [item("scalarr_4_3", NONE, 0.06 if q else 0.5, False, max=4),
             item("nestarr_2", NONE, 0.06 if q else 0.5, False, max=4),
             item("obj_2", NONE, 0.1 if q else 0.6, False, max=3),
             item("deep", NONE, 0.04 if q else 0.4, False, max=4),
             item("objptr", NONE, 0.015 if q else 0.15, False, max=3),
             item("ptrdeep", NONE, 0.1 if q else 0.8, False, max=4),
             item("keyed_2", NONE, 0.3 if q else 1.0, False, max=3),
             item("siblings", NONE, 0.2 if q else 1.0, False, max=3), item("kinds", NONE, 0.03 if q else 0.5, False, max=3),
             item("intkeys", NONE, 0.3 if q else 1.0, False, max=3),
             item("long_key", NONE, 0.04 if q else 0.8, False, max=1 if q else 2), item("wide", NONE, 0.25 if q else 1.0, False, max=1 if q else 2),
             item("huge2", NONE, 0.35 if q else 1.0, False, max=1),
             # set-mode diffs: paths that must be refused
             item("scalarr_4_3", SET, 0.01 if q else 0.05, False, max=1), item("keyed_2", KEYS, 0.1 if q else 0.5, False, max=1),
             item("nestarr_2", MSET, 0.01 if q else 0.05, False, max=1)]
    return items


def plan_mg(tier, seed, props):
    q = tier == "quick"
    items = []
    for o in (MERGE, SETMERGE, MSETMERGE):
        f = 1.0 if o is MERGE else 0.5
        items += [item("obj_2", o, (0.4 if q else 1.0) * f, False), item("deep", o, (0.15 if q else 1.0) * f, False),
                  item("nestarr_2", o, (0.1 if q else 0.6) * f, False), item("keyed_2", o, (0.4 if q else 1.0) * f, False),
                  item("deepobj", o, (0.3 if q else 1.0) * f, False), item("scalarr_4_3", o, (0.05 if q else 0.3) * f, False),
                  item("kinds", o, (0.1 if q else 1.0) * f, False), item("siblings", o, (0.2 if q else 1.0) * f, False),
                  item("long_key", o, (0.1 if q else 1.0) * f, False), item("wide", o, (0.5 if q else 1.0) * f, False),
                  item("wide40", o, 1.0 * f, False)]
        if not q:
            items += [item("obj_3", o, 0.2 * f, False)]
    return items


def plan_mp(tier, seed, props):
    q = tier == "quick"
    return [dict(family="mergedocs", opts=NONE, frac=0.35 if q else 1.0, void=False, nf=False),
            dict(family="mergedeep", opts=NONE, frac=0.6 if q else 1.0, void=False, nf=False)]


def plan_cr(tier, seed, props):
    return []


def plan_api(tier, seed, props):
    q = tier == "quick"
    n = 3 if q else 4
    return [item("nestarr_2", NONE, max=n * 2), item("scalarr_4_3", NONE, max=n), item("obj_2", MERGE, max=n * 2), item("deepobj", MERGE, max=n),
            dict(family="mergenull", opts=MERGE, frac=1.0, void=False, nf=False, max=n * 6),
            dict(family="mergedocs", opts=MERGE, frac=1.0, void=False, nf=False, max=n * 3), dict(family="obj_2", opts=MERGE, frac=1.0, void=False, nf=False, max=n),
            item("obj_2", NONE, max=n), item("scalarr_4_3", SET, max=n), item("nestarr_2", MSET, max=n), item("keyed_2", KEYS, max=n),
            item("obj_2", SETMERGE, max=n), item("deep", NONE, max=n), item("mergedeep", MERGE, max=n),
            item("kinds", NONE, max=n * 2), item("siblings", NONE, max=n), item("wide", NONE, max=n * 2), item("wide", MERGE, max=n),
            item("long_elem", NONE, max=n), item("long_root", SET, max=n)]


def plan_api_ptr(tier, seed, props):
    """under the pointer table: keys that are different spellings of one integer, keys that need escaping"""
    n = 3 if tier == "quick" else 10
    return [item("intkeys", NONE, max=n * 4), item("intkeys", MERGE, max=n * 2), item("objptr", NONE, max=n * 2), item("ptrdeep", NONE, max=n)]


def plan_ya(tier, seed, props):
    q = tier == "quick"
    return [dict(family="yamldocs", opts=NONE, frac=1.0, void=False, nf=False),
            dict(family="obj_2", opts=NONE, frac=1.0, void=False, nf=False),
            dict(family="deep", opts=NONE, frac=1.0, void=False, nf=False),
            dict(family="nestarr_2", opts=NONE, frac=1.0, void=False, nf=False),
            dict(family="mergedocs", opts=NONE, frac=1.0, void=False, nf=False),
            dict(family="objptr", opts=NONE, frac=0.3 if q else 1.0, void=False, nf=False),
            dict(family="confusable", opts=NONE, frac=1.0, void=False, nf=False)]


def plan_v1(tier, seed, props):
    q = tier == "quick"
    items = []
    c18 = "C18" in props
    items += [item("scalarr_4_3", NONE, 0.12 if q else 0.6), item("nestarr_2", NONE, 0.12 if q else 0.6), item("obj_2", NONE, 0.15 if q else 1.0),
              item("deep", NONE, 0.06 if q else 0.6), item("deepobj", NONE, 0.4 if q else 1.0), item("deeparr", NONE, 0.15 if q else 1.0),
              item("keyed_2", NONE, 0.3 if q else 1.0), item("objptr", NONE, 0.01 if q else 0.1), item("ptrdeep", NONE, 0.06 if q else 0.6),
              item("kinds", NONE, 0.05 if q else 0.5), item("siblings", NONE, 0.3 if q else 1.0),
              item("long_key", NONE, 0.1 if q else 1.0, False), item("long_root", NONE, 0.1 if q else 1.0, False), item("wide", NONE, 0.5 if q else 1.0, False)]
    for o in ((MERGE,) if c18 else (SET, MSET, MERGE, KEYS, O(eps=8))):
        f = 0.05 if q else 0.3
        vd = not (c18 and o.get("merge"))      # RFC 7386 has no notion of the empty (void) document
        items += [item("obj_2", o, f * 2, vd), item("deep", o, f / 2, vd), item("deepobj", o, f * 3, vd), item("nestarr_2", o, f, vd),
                  item("mergedeep", o, f * 2, vd), item("kinds", o, f / 2, vd)]
        if not c18:
            items += [item("scalarr_4_3", o, f), item("keyed_2", o, f * 4)]
    if not c18:
        items += [item("kinds", o, 0.03 if q else 0.3, mode="negzero") for o in (NONE, SET, MSET)]
        # the keyed reading of v1 (SET + Setkeys), on the families whose array members all carry the keys
        items += [item("keyed_2", SETKEYS, 0.6 if q else 1.0), item("keyeddeep", SETKEYS, 1.0), item("keyedcont", SETKEYS, 0.4 if q else 1.0), item("keyedwide", SETKEYS, 0.5 if q else 1.0),
                  item("keyed2k", O(set=True, keys=["from", "to"]), 0.3 if q else 1.0)]
    return items


def followup_vary(sc, jdv, st, tr, tag, seed):
    """pass 2 of C10: TLC applies the variation operators to the real patches of pass 1"""
    out = sc.sub("vary-" + tag)
    r = L.run_tlc(sc, "GenVary", "INIT GenInit\nNEXT GenNext\n", env={"JDV_TRACE": tr["dir"], "JDV_OUT": out},
                  workers=1, timeout=1800, tag="genvary-" + tag)
    if not L.tlc_ok(r):
        raise Infra("variation generator failed:\n" + L.tlc_error_text(r))
    plan = dict(driver="jpv", seed=seed, table=table_path(st.table), yaml_every=0, items=[], bins={},
                extra={"vary": os.path.join(out, "vary.ndjson")})
    return [(plan, "TraceJP", tag + "v")]


def _mcpatch(fam):
    return ("MCPatch", "SPECIFICATION Spec\nCONSTANT Family = \"%s\"\nINVARIANT RoundTrip NoFailureOnSource Total Relations OrderInsensitive\n"
            "PROPERTY ErrTerminal FrameProp\nCHECK_DEADLOCK FALSE\n" % fam, 16)


# name -> (module, cfg text, workers): bounded exhaustive design-level models, small constants, finish in seconds
DESIGN_CFG = {
    "ListDiff": ("ListDiff", "SPECIFICATION Spec\nCONSTANT MaxLen = 3\nINVARIANT IndexBookkeeping AtEnd\nCHECK_DEADLOCK FALSE\n", 16),
    "ListDiff-4": ("ListDiff", "SPECIFICATION Spec\nCONSTANT MaxLen = 4\nINVARIANT IndexBookkeeping AtEnd\nCHECK_DEADLOCK FALSE\n", 16),
    "MCEq": ("MCEq", "INIT Init\nNEXT Next\nINVARIANT Laws\nCHECK_DEADLOCK FALSE\n", 16),
    "MCText": ("MCText", "SPECIFICATION Spec\nCONSTANT MaxLines = 3\nINVARIANT TypeOK Total CarrierAtEnd\nPROPERTY ErrSticks\nCHECK_DEADLOCK FALSE\n", 16),
    "MCJsonPatch": ("MCJsonPatch", "SPECIFICATION Spec\nINVARIANT MachineIsEval OnA NativeImpliesRfc\nCHECK_DEADLOCK FALSE\n", 16),
    "MCReadPatch": ("MCReadPatch", "SPECIFICATION Spec\nINVARIANT MachineIsFunction NeverMorePermissive OwnOutput\nCHECK_DEADLOCK FALSE\n", 16),
    "MCMerge": ("MCMerge", "INIT Init\nNEXT Next\nINVARIANT C11 C12 C12Deviations\nCHECK_DEADLOCK FALSE\n", 16),
    "MCApi": ("MCApi", "SPECIFICATION ApiSpec\nCONSTANT MaxLen = 3\nINVARIANT Deterministic\nPROPERTY Pure\nCHECK_DEADLOCK FALSE\n", 8),
    "MCCli": ("MCCli", "SPECIFICATION Spec\nINVARIANT AgreesWithFunction ExitRange\nCHECK_DEADLOCK FALSE\n", 8),
    "MCV1": ("MCV1", "INIT Init\nNEXT Next\nINVARIANT RoundTrip1 Empty1 Rfc6902\nCHECK_DEADLOCK FALSE\n", 16),
    "MCPatch-list4": _mcpatch("list4"), "MCPatch-list": _mcpatch("list"), "MCPatch-nest": _mcpatch("nest"), "MCPatch-obj": _mcpatch("obj"), "MCPatch-keyed": _mcpatch("keyed"),
}

# thorough tier: a large plan is driven and judged in chunks, one TLC run of at most ~150 k sessions each
CHUNKS = {("C01", "dp"): 8, ("C05", "dp"): 8, ("C06", "dp"): 4, ("C07", "dp"): 8, ("C03", "pt"): 6, ("C08", "pt"): 6, ("C04", "eq"): 4,
          ("C02", "tx"): 4, ("C09", "jp"): 3, ("C10", "jp"): 6, ("C11", "mg"): 3, ("C17", "v1"): 8, ("C18", "v1"): 3, ("C13", "cr"): 4, ("C15", "api"): 8}

THOROUGH_EXTRA = {p: ["MCPatch-list", "MCPatch-list4", "MCPatch-nest", "MCPatch-obj", "MCPatch-keyed"] for p in ("C01", "C03", "C05", "C06", "C07", "C08")}

def content(driver, module, planfn, scale=0.09, **kw):
    """content stages: the property's own plan, sampled, under tables/content1.json (empty / escaped / multi-byte / control
    strings and keys, negative and fractional numbers) and tables/content2.json (300-character strings, 200-character keys,
    keys that look like indices, 1e21, 2^53-range integers, the smallest and the largest float)"""
    return [Stage(driver, module, planfn, table=t, scale=scale, **kw) for t in ("content1", "content2", "content3")]


CHECKS = {
    "C01": dict(stages=[Stage("dp", "TraceDP", plan_dp)] + content("dp", "TraceDP", plan_dp), design=["ListDiff", "MCPatch-list", "MCPatch-obj"],
                rule="session = one (a, b, options) triple: Diff as returned, Patch of every prefix on fresh documents, "
                     "Equals; non-trivial = the diff has at least one hunk"),
    "C02": dict(stages=[Stage("tx", "TraceText", plan_tx, table="hostile")], design=["MCText"],
                rule="session = one diff value (returned by Diff, or built from DiffElement fields: every well-formed single hunk, "
                     "seeded pairs and triples): Render, ReadDiffString, re-Render, colour, Patch of both on targets"),
    "C09": dict(stages=[Stage("jp", "TraceJP", plan_jp, table="pointer")], design=["MCJsonPatch"],
                rule="session = one list-mode (a,b) over keys hostile to JSON Pointer: RenderPatch text parsed independently and "
                     "evaluated by the RFC 6902 machine on a and on every target the native diff applies to"),
    "C10": dict(stages=[Stage("jp", "TraceJP", plan_jp, table="pointer", followup=followup_vary)], design=["MCJsonPatch", "MCReadPatch"],
                rule="session = one patch document (jd's own output, or a variation generated by the specification: shifted indices, "
                     "dropped hunks, dropped context tests, changed test/remove values, '-' appends) read by ReadPatchString and applied to targets"),
    "C11": dict(stages=[Stage("mg", "TraceMerge", plan_mg)] + content("mg", "TraceMerge", plan_mg), design=["MCMerge"],
                rule="session = one null-free (a,b), a != b, under MERGE / SET+MERGE / MULTISET+MERGE: RenderMerge text evaluated by the RFC 7386 function"),
    "C12": dict(stages=[Stage("mp", "TraceMerge", plan_mp)] + content("mp", "TraceMerge", plan_mp, scale=0.5), design=["MCMerge"],
                rule="session = one merge patch document read by ReadMergeString and applied to every target of the family"),
    "C13": dict(stages=[Stage("cr", "TraceCrash", plan_cr, extra={"tier": "TIER"}),
                        Stage("tx", "TraceText", plan_tx_built, table="hostile"),
                        Stage("proc", "TraceCli", lambda t, s, p: [], bins=True, extra={"frac": "FRAC"}),
                        Stage("crcli", "TraceCli", lambda t, s, p: [], bins=True, extra={"n": "NCLI"})], design=["MCText", "MCCli"],
                rule="session = one input: a line sequence over 46 line kinds (all of length <= 2, sampled/all of length 3, seeded longer ones), "
                     "a structurally valid hunk with arbitrary path built from fields and through text, an op sequence, or a seeded byte "
                     "mutation of a valid text; every accepted diff is applied to documents of every kind"),
    "C15": dict(stages=[Stage("api", "TraceApi", plan_api, extra={"histories": "HIST"}),
                        Stage("api", "TraceApi", plan_api_ptr, table="pointer", extra={"histories": "histories_2"})], design=["MCApi"],
                rule="session = one history of read-only calls (every sequence over 10 calls up to the tier's length, from Api.tla) on shared "
                     "live values of one seed (a, b, options), repeated in-process and compared with a reference process; non-trivial = history length >= 2"),
    "C14": dict(stages=[Stage("proc", "TraceCli", lambda t, s, p: [], bins=True, extra={"frac": "FRAC"}),
                        Stage("proc", "TraceCli", lambda t, s, p: [], bins=True, table="percent", extra={"frac": "FRAC2"})], design=["MCCli"],
                rule="session = one invocation of the matrix of Cli.tla (binary x reading flags x format x yaml x color x -o x input pair, "
                     "error and translation invocations), its stdin twin and the follow-up jd -p run on its output"),
    "C16": dict(stages=[Stage("ya", "TraceCarrier", plan_ya, bins=True, table="yaml")], design=[], level="exploration",
                rule="case = one document of the model-generated universe under the yaml-hostile string table (40 strings that look like "
                     "numbers, booleans, null or YAML syntax, in root / member / value / key position): three library legs, yaml-born vs "
                     "json-born equality, and two CLI protocols; non-trivial = the document contains a hostile string or a container"),
    "C17": dict(stages=[Stage("v1", "TraceV1", plan_v1, yaml_every=0)] + content("v1", "TraceV1", plan_v1, yaml_every=0), design=["MCV1"],
                rule="session = one (a,b,metadata) through package lib: Diff, Patch of every prefix, Equals, Render + ReadDiffString + Patch"),
    "C18": dict(stages=[Stage("v1", "TraceV1", plan_v1, yaml_every=0, table="pointer")], design=["MCV1", "MCMerge"],
                rule="session = one list-mode or merge-mode (a,b) through package lib: RenderPatch evaluated by the RFC 6902 machine, RenderMerge by "
                     "the RFC 7386 function, and both read back by the v1 readers and applied"),
    "C03": dict(stages=[Stage("pt", "TraceDP", plan_pt)] + content("pt", "TraceDP", plan_pt), design=["MCPatch-list"],
                rule="session = one list-mode diff with its sub-sequences applied to a, b and perturbed targets; "
                     "non-trivial = at least one target rejected and one accepted"),
    "C04": dict(stages=[Stage("eq", "TraceEq", plan_eq)] + content("eq", "TraceEq", plan_eq), design=["MCEq"],
                rule="session = one (a, b, options) triple: Equals(a,b), Equals(b,a), Equals(a,a) against the canonical-form oracle"),
    "C05": dict(stages=[Stage("dp", "TraceDP", plan_dp)] + content("dp", "TraceDP", plan_dp) + [Stage("proc", "TraceCli", lambda t, s, p: [], bins=True, extra={"frac": "FRAC"})], design=["MCPatch-obj"], rule="session = (a,b,options): len(Diff)=0 iff Equals"),
    "C06": dict(stages=[Stage("dp", "TraceDP", plan_dp)] + content("dp", "TraceDP", plan_dp), design=["ListDiff", "MCPatch-list", "MCPatch-nest"], rule="session = list-mode (a,b): hunks vs independent LCS"),
    "C07": dict(stages=[Stage("dp", "TraceDP", plan_dp)] + content("dp", "TraceDP", plan_dp), design=["ListDiff", "MCPatch-nest", "MCPatch-obj"], rule="session = (a,b,options): per-hunk and leave-one-out"),
    "C08": dict(stages=[Stage("pt", "TraceDP", plan_pt)] + content("pt", "TraceDP", plan_pt), design=["MCPatch-keyed"], rule="session = set/multiset/setkeys diff on permuted and perturbed targets"),
}


# --------------------------------------------------------------------------- running
def run_design(sc, names):
    tot = dict(states=0, transitions=0, runs=[])
    for name in names:
        if name not in DESIGN_CFG:
            continue
        module, cfg, workers = DESIGN_CFG[name]
        r = L.run_tlc(sc, module, cfg, tag="design-" + name, workers=workers, timeout=1800)
        if not L.tlc_ok(r):
            raise Infra("design-level model %s failed (this is a defect of the specification, not of jd):\n%s"
                        % (name, L.tlc_error_text(r)))
        tot["states"] += r["distinct"]
        tot["transitions"] += r["generated"]
        tot["runs"].append(dict(model=name, distinct=r["distinct"], generated=r["generated"], wall=round(r["wall"], 1)))
    return tot


def run_design_cli(argv, keep):
    sc = L.Scratch(keep)
    try:
        r = run_design(sc, argv)
        print(json.dumps(r, indent=1))
    finally:
        sc.close()
    return 0


def classify(prop, fails, known):
    """splits failing (sess, prop, clause) into listed findings and new violations"""
    viol, kf = [], {}
    for f in fails:
        hit = None
        for k in known:
            if k.get("status") == "open" and k["property"] == f[1] and k["clause"] == f[2]:
                hit = k
                break
        if hit:
            kf.setdefault(hit["id"], []).append(f)
        else:
            viol.append(f)
    return viol, kf


def run_check(prop, tier, seed, keep=False, only=None):
    """only = (stage tag, session id): replay of one recorded session"""
    t0 = time.time()
    cfg = CHECKS[prop]
    import glob
    if only is None:
        for f in glob.glob(os.path.join(L.REPLAYS, prop + "-*.json")):
            os.remove(f)
    L.ensure_universe()
    sc = L.Scratch(keep)
    try:
        jdv = L.build_harness(sc)
        bins = None
        dnames = list(cfg.get("design", []))
        if tier == "thorough":
            dnames = [("ListDiff-4" if d == "ListDiff" else d) for d in dnames]
            dnames += [d for d in THOROUGH_EXTRA.get(prop, []) if d not in dnames]
        design = run_design(sc, dnames)
        fails, notes, knowns = [], [], []
        stats = {}
        sessions = records = 0
        tstates = ttrans = 0
        samples, stage_info = [], []
        traces = {}
        work = []
        fatal = 0
        for i, st in enumerate(cfg["stages"]):
            if st.bins and bins is None:
                bins = L.build_binaries(sc)
            props_judged = st.props or [prop]
            nchunks = CHUNKS.get((prop, st.driver), 1) if tier == "thorough" else 1
            for ch in range(nchunks):
              items = st.planfn(tier, seed, props_judged)
              if st.scale != 1.0:
                  # content stage: no Precision items (the number table is not arithmetic), everything sampled
                  items = [dict(it, frac=it.get("frac", 1.0) * st.scale) for it in items if not it["opts"].get("eps")]
              plan = dict(driver=st.driver, seed=seed, table=table_path(st.table), yaml_every=st.yaml_every,
                        items=items, bins=bins or {},
                        extra={k: (tier if v == "TIER" else (0.12 if tier == "quick" else 1.0) if v == "FRAC" else (0.04 if tier == "quick" else 0.3) if v == "FRAC2" else (300 if tier == "quick" else 6000) if v == "NCLI" else ("histories_2" if tier == "quick" else "histories_3") if v == "HIST" else v)
                               for k, v in st.extra.items()})
              if nchunks > 1:
                  plan["extra"]["chunk"] = [ch, nchunks]
              work.append((plan, st.module, "%s-%d" % (st.driver, i) + ("" if nchunks == 1 else "c%d" % ch), st, props_judged))
        while work:
            plan, module, tag, st, props_judged = work.pop(0)
            if only is not None and tag == only[0]:
                plan = dict(plan)
                plan["extra"] = dict(plan.get("extra") or {}, only=only[1])
            try:
                tr = L.run_driver(sc, jdv, plan, tag)
            except L.FatalInJd as e:
                # the real code killed the process (a fatal error cannot be recovered into a trace record): the operations of
                # the property did not succeed; the replay re-runs the stage
                tail = e.output[-6000:]
                path = L.write_replay(prop, "fatal-error", [], dict(stage=tag, seed=seed, tier=tier, driver=e.driver, output=tail))
                print("VIOLATION property=%s replay=%s clause=fatal-error (the process died inside jd while driving stage %s: %s)"
                      % (prop, path, tag, next((ln for ln in e.output.splitlines() if ln.startswith("fatal error:")), "fatal error")))
                fatal += 1
                continue
            if only is not None and tag != only[0]:
                # not the stage being replayed: only its follow-up stages are needed
                if st is not None and st.followup:
                    for (p2, m2, t2) in st.followup(sc, jdv, st, tr, tag, seed):
                        work.append((p2, m2, t2, None, props_judged))
                continue
            v = L.judge(sc, module, props_judged, tr, tag, constants=known_constants())
            traces[tag] = tr
            if st is not None and st.followup:
                for (p2, m2, t2) in st.followup(sc, jdv, st, tr, tag, seed):
                    work.append((p2, m2, t2, None, props_judged))
            for f in v["fail"]:
                fails.append(f + (tag,))
            for f in v["known"]:
                knowns.append(f + (tag,))
            notes += v["note"]
            for k, n in v["stat"].items():
                stats[k] = stats.get(k, 0) + n
            sessions += tr["sessions"]
            records += tr["records"]
            tstates += v["tlc"]["distinct"]
            ttrans += v["tlc"]["generated"]
            samples += L.first_sessions(tr["dir"], 2)
            stage_info.append(dict(driver=plan["driver"], judge=module, sessions=tr["sessions"], records=tr["records"],
                                   driver_wall=round(tr["wall"], 1), judge_wall=round(v["tlc"]["wall"], 1),
                                   stats=v["stat"]))
        fails = [f for f in fails if f[1] == prop]
        knowns = [f for f in knowns if f[1] == prop]
        # listed findings
        known = {k["id"]: k for k in L.load_known() if k.get("status") == "open" and k["property"] == prop}
        kf_hits = {}
        for (sess, p, clause, tag) in knowns:
            kid = clause.split(",")[0]
            if kid in known:
                kf_hits.setdefault(kid, []).append((sess, tag))
            else:
                fails.append((sess, p, "unlisted-deviation:" + clause, tag))
        for kid, hits in sorted(kf_hits.items()):
            print("KNOWN-FINDING: property=%s %s (%d sessions in this run; e.g. session %d)"
                  % (prop, known[kid]["what"], len(hits), hits[0][0]))
        # violations: one replay per failing session, at most 12 per clause; every clause is printed
        nviol = len(fails) + fatal
        per_clause = {}
        for (sess, p, clause, tag) in sorted(fails):
            per_clause.setdefault(clause, []).append((sess, tag))
        for clause, hits in sorted(per_clause.items()):
            for (sess, tag) in hits[:12]:
                recs = L.session_records(traces[tag]["dir"], sess)
                path = L.write_replay(prop, clause, recs, dict(stage=tag, seed=seed, tier=tier))
                print("VIOLATION property=%s replay=%s clause=%s session=%d" % (prop, path, clause, sess))
            if len(hits) > 12:
                print("  ... %d more sessions fail clause %s of %s" % (len(hits) - 12, clause, prop))
        note_counts = {}
        for (_, p, what) in notes:
            if p == prop:
                note_counts[what] = note_counts.get(what, 0) + 1
        wall = time.time() - t0
        if only is not None:
            log("replay of session %d (%s): %s" % (only[1], only[0], "still fails" if nviol else "no failing clause"))
            return 1 if nviol else 0
        cov = dict(states=design["states"] + tstates, transitions=design["transitions"] + ttrans,
                   traces_validated_against_impl=sessions, samples=samples[:4],
                   evaluations=sessions, distinct_nontrivial=stats.get("nontrivial", sessions), trace_records=records, judge_stats=stats,
                   design_models=design["runs"], stages=stage_info, rule=cfg.get("rule", ""),
                   known_finding_sessions={k: len(v) for k, v in kf_hits.items()},
                   informational_notes=note_counts, exhaustive=False)
        L.write_evidence(prop, tier, seed, cfg.get("level", "model_checking"), cov, wall, nviol,
                         ["TLC 1.8.0 and the CommunityModules Json/IOUtils overrides",
                          "harness codec: documents injected as JSON text and projected from Json(); diffs through public DiffElement/Path fields",
                          "bounded universes listed in spec/Universe.tla; hash-sampled by VERIF_SEED where not exhaustive"])
        log("%s %s: sessions=%d records=%d violations=%d known=%d wall=%.1fs"
            % (prop, tier, sessions, records, nviol, sum(len(v) for v in kf_hits.values()), wall))
        return 1 if nviol else 0
    finally:
        sc.close()


def known_constants():
    devs = [k["id"] for k in L.load_known() if k.get("status") == "open" and k.get("deviation")]
    return {"KnownDevs": "{%s}" % ", ".join('"%s"' % d for d in devs)}


def replay(prop, path, keep):
    """re-runs the recorded failing session: same tier, seed and stage, the driver restricted to that session"""
    r = json.load(open(path))
    if r.get("clause") == "fatal-error":
        return run_check(prop, r.get("tier", "quick"), int(r.get("seed", 1)), keep)
    sess = r["records"][0]["sess"]
    return run_check(prop, r.get("tier", "quick"), int(r.get("seed", 1)), keep, only=(r["stage"], sess))


def _corrupt(trace_dir, pred, mutate):
    """rewrites the first record (over all shards) for which pred holds with mutate(rec); returns its session id"""
    for k in range(L.NSHARDS):
        path = os.path.join(trace_dir, "shard%d.ndjson" % k)
        lines = open(path).read().splitlines()
        for i, ln in enumerate(lines):
            r = json.loads(ln)
            if pred(r):
                mutate(r)
                lines[i] = json.dumps(r)
                with open(path, "w") as f:
                    f.write("\n".join(lines) + "\n")
                return r["sess"]
    return None


def selftest():
    """Binding self-test (DESIGN.md section 7): for each trace family a small real trace must be accepted, and the same trace
    with ONE recorded field corrupted must be rejected for exactly that session.  A judge that accepts a corrupted trace
    is decoration: setup fails."""
    sc = L.Scratch()
    bad = []
    try:
        jdv = L.build_harness(sc)
        bins = L.build_binaries(sc)

        def first_bool(r, key):
            return r.get("op") == key and r.get("res", {}).get("st") == "ok" and r["res"].get("bool") is True

        def flip_res_bool(r):
            r["res"]["bool"] = False

        def bump_doc(r):
            r["res"]["doc"] = {"k": "n", "v": 4242}

        cases = [
            ("dp", "TraceDP", ["C01"], dict(items=[item("scalarr_4_3", NONE, 0.02)]), "C01 Equals result",
             lambda r: first_bool(r, "Equals"), flip_res_bool),
            ("dp", "TraceDP", ["C03"], dict(items=[item("scalarr_4_3", NONE, 0.02)]), "C03 patched document",
             lambda r: r.get("op") == "PatchStep" and r["res"].get("st") == "ok", bump_doc),
            ("dp", "TraceDP", ["C06"], dict(items=[item("scalarr_4_3", NONE, 0.02)]), "C06 hunk index",
             lambda r: r.get("op") == "Diff" and len(r.get("diff", [])) >= 1 and r["diff"][0]["path"] and r["diff"][0]["path"][-1]["k"] == "idx",
             lambda r: r["diff"][0]["path"][-1].__setitem__("v", r["diff"][0]["path"][-1]["v"] + 1)),
            ("dp", "TraceDP", ["C07"], dict(items=[item("obj_2", NONE, 0.05)]), "C07 duplicated hunk",
             lambda r: r.get("op") == "Diff" and len(r.get("diff", [])) >= 1, lambda r: r["diff"].append(r["diff"][0])),
            ("eq", "TraceEq", ["C04"], dict(items=[item("scalarr_4_3", SET, 0.02, False)]), "C04 Equals result",
             lambda r: r.get("op") == "Eq" and r["ab"].get("bool") is False, lambda r: (r["ab"].__setitem__("bool", True), r["ba"].__setitem__("bool", True))),
            ("tx", "TraceText", ["C02"], dict(items=[item("scalarr_4_3", NONE, 0.01)]), "C02 re-read diff",
             lambda r: r.get("op") == "Read" and len(r.get("diff", [])) >= 1 and r["diff"][0]["add"], lambda r: r["diff"][0]["add"].pop()),
            ("jp", "TraceJP", ["C09"], dict(items=[item("scalarr_4_3", NONE, 0.01, False, max=2)]), "C09 op path",
             lambda r: r.get("op") == "RenderPatch" and any(o["op"] == "add" and o["path"] and o["path"][-1]["i"] >= 0 for o in r.get("ops", [])),
             lambda r: [o["path"][-1].__setitem__("i", o["path"][-1]["i"] + 1) for o in r["ops"] if o["op"] == "add" and o["path"]][:1]),
            ("mg", "TraceMerge", ["C11"], dict(items=[item("obj_2", MERGE, 0.03, False)]), "C11 merge patch",
             lambda r: r.get("op") == "RenderMerge" and r["p"]["k"] == "O" and r["p"]["v"], lambda r: r.__setitem__("p", {"k": "O", "v": {}})),
            ("mp", "TraceMerge", ["C12"], dict(items=[dict(family="mergedocs", opts=NONE, frac=0.02, void=False, nf=False)]), "C12 patched document",
             lambda r: r.get("op") == "Apply" and r["res"].get("st") == "ok", bump_doc),
            ("cr", "TraceCrash", ["C13"], dict(items=[], extra={"tier": "selftest"}), "C13 crash flag",
             lambda r: r.get("op") == "Apply" and r["res"].get("st") == "err", lambda r: r["res"].__setitem__("st", "panic")),
            ("api", "TraceApi", ["C15"], dict(items=[item("nestarr_2", NONE, max=2)], extra={"histories": "histories_2"}), "C15 live value",
             lambda r: r.get("op") == "Call" and r["obs"]["d"], lambda r: r["obs"]["d"].pop()),
            ("proc", "TraceCli", ["C14"], dict(items=[], extra={"frac": 0.01}), "C14 exit status",
             lambda r: r.get("op") == "Proc" and r["proc"]["exit"] == 1, lambda r: r["proc"].__setitem__("exit", 0)),
            ("ya", "TraceCarrier", ["C16"], dict(items=[dict(family="confusable", opts=NONE, frac=1.0, void=False, nf=False)]), "C16 delivered document",
             lambda r: r.get("op") == "Ya" and r["yy"]["k"] == "A", lambda r: r.__setitem__("yy", {"k": "A", "v": []}) if r["yy"]["v"] else r.__setitem__("yy", {"k": "n", "v": 1})),
            ("v1", "TraceV1", ["C17"], dict(items=[item("scalarr_4_3", NONE, 0.01)]), "C17 Equals result",
             lambda r: first_bool(r, "Equals"), flip_res_bool),
        ]
        for n, (drv, module, prs, planx, what, pred, mut) in enumerate(cases):
            tag = "self%d" % n
            plan = dict(driver=drv, seed=1, table="plain", yaml_every=0, bins=bins, extra={})
            plan.update(planx)
            tr = L.run_driver(sc, jdv, plan, tag)
            v = L.judge(sc, module, prs, tr, tag, constants=known_constants())
            clean = [f for f in v["fail"] if f[1] in prs]
            if clean:
                bad.append("%s: the unchanged tree fails its own self-test trace: %s" % (what, clean[:2]))
                continue
            sess = _corrupt(tr["dir"], pred, mut)
            if sess is None:
                bad.append("%s: no record to corrupt (self-test plan too small)" % what)
                continue
            v2 = L.judge(sc, module, prs, tr, tag + "c", constants=known_constants())
            failed = {f[0] for f in v2["fail"] if f[1] in prs}
            known_before = {f[0] for f in v["known"] if f[1] in prs}
            hit = failed | ({f[0] for f in v2["known"] if f[1] in prs} - known_before)
            if sess not in hit:
                bad.append("%s: corrupted session %d was ACCEPTED by %s" % (what, sess, module))
            elif failed - {sess}:
                bad.append("%s: corrupting session %d also failed sessions %s" % (what, sess, sorted(failed - {sess})[:3]))
            else:
                log("self-test ok: %s -> %s rejects exactly session %d" % (what, module, sess))
    finally:
        sc.close()
    if bad:
        for b in bad:
            print("SELF-TEST FAILED:", b)
        return 2
    print("self-test: %d corrupted traces, each rejected for exactly the corrupted session" % len(cases))
    return 0
