#!/bin/bash
# usage: seedingest.sh <prop> <src dir with patch.diff demo_test.go notes.md> <name> <worktree>
# copies a sub-agent seed into seeded/<name>, confirms it (seedverify) and runs the property's quick check on it (seedrun2)
P=$1; SRC=$2; N=$3; W=$4
cd /verif; D=seeded/$N; mkdir -p $D; cp $SRC/patch.diff $SRC/demo_test.go $SRC/notes.md $D/ 2>/dev/null
v=$(lib/seedverify.sh $D $W 2>&1 | grep -v '^WARN')
okbase=$(echo "$v" | sed -n '/unchanged tree/,/existing tests/p' | grep -c '^ok')
oktests=$(echo "$v" | sed -n '/existing tests/,/demo with the change/p' | grep -c '^ok')
faildemo=$(echo "$v" | sed -n '/demo with the change/,$p' | grep -c '^FAIL')
r=$(lib/seedrun2.sh $D $P 2>&1 | grep -v '^WARN')
echo "INGEST $N prop=$P demo_on_base_ok=$okbase suites_ok=$oktests demo_fails_with_change=$faildemo :: $(echo "$r" | head -1)"
echo "$r" | tail -n +2 | head -4
python3 - "$D" "$P" "$okbase" "$oktests" "$faildemo" "$(echo "$r" | head -1)" <<'PY'
import json,sys
d,p,ob,ot,fd,res=sys.argv[1:7]
json.dump({"property":p,"origin":"independent sub-agent (round 2: two different changes per property), given only the property text and a scratch worktree",
 "change":"see notes.md","needs_to_manifest":"see notes.md",
 "confirmed":"lib/seedverify.sh: demo passes on the unchanged tree (%s), existing suites pass with the change (%s packages ok), demo fails with the change (%s)"%(ob,ot,fd),
 "detected_by":res,"ran":"lib/seedingest.sh"},open(d+'/meta.json','w'),indent=1)
PY
