#!/usr/bin/env python3
"""Development aid: show failing (target, step) blocks of a kept pt scratch directory."""
import sys,json,collections,os
sys.path.insert(0,os.path.dirname(os.path.abspath(__file__)))
import jdvlib as L, analyze as A
D=sys.argv[1]; tag=sys.argv[2] if len(sys.argv)>2 else 'pt-0'; per=int(sys.argv[3]) if len(sys.argv)>3 else 2
out=open(os.path.join(D,'tlc-'+tag,'tlc.out')).read().splitlines()
v=L.parse_verdicts(out)
seen=collections.Counter(); tot=collections.Counter()
for s,p,cl in v['fail']+[(s,p,'KNOWN,'+c) for s,p,c in v['known']]:
    parts=cl.split(',')
    if parts[0]=='KNOWN': parts=parts[1:]; kn='KNOWN '
    else: kn=''
    if len(parts)<4: continue
    t,k,st=int(parts[-3]),int(parts[-2]),parts[-1]
    recs=L.session_records(os.path.join(D,'trace-'+tag),s)
    d=recs[1]['diff']; blk=None
    for r in recs[2:]:
        if r['op']=='Target': blk=[r] if r['t']==t else None
        elif r['op']=='PatchStep' and blk is not None: blk.append(r)
        if blk and len(blk)-1==k: break
    if not blk: continue
    last=blk[-1]['res']
    import re
    key=(kn+p+' '+parts[0], st, re.sub(r'[0-9]+','N',last.get('msg',''))[:50], A.otag(recs[0]['opts']))
    tot[key]+=1
    if seen[key]<per:
        seen[key]+=1
        print(key); print('   a=%s b=%s'%(A.txt(recs[0]['a']),A.txt(recs[0]['b'])))
        print('   sub:', ' ; '.join(A.hunk(d[i]) for i in blk[0]['sub']))
        print('   c=',A.txt(blk[0]['c']))
        for x in blk[1:]: print('      ',x['k'],x['res']['st'],A.txt(x['res']['doc']) if 'doc' in x['res'] else x['res'].get('msg'))
print()
for k,n in tot.most_common(): print(n,k)
