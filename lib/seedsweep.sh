#!/bin/bash
# usage: seedsweep.sh [pattern]  - runs every seeded change against the check of its property (from meta.json), 3 at a time,
# each in a private worktree (lib/seedrun2.sh). Prints one result line per seed.
HERE=$(cd "$(dirname "$0")/.." && pwd)
cd $HERE
./check setup >/dev/null 2>&1
for d in seeded/${1:-*}; do
  [ -f $d/patch.diff ] || continue
  p=$(python3 -c "import json,sys; print(json.load(open('$d/meta.json'))['property'])" 2>/dev/null)
  [ -n "$p" ] && echo "$d $p"
done | xargs -P 3 -L 1 bash -c 'lib/seedrun2.sh $0 $1 2>&1 | grep "^seed=\|^ *[0-9]* clause\|INFRA" '
echo SWEEP-DONE
