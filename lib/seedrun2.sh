#!/bin/bash
# usage: seedrun2.sh <seeded/dir> <property> [tier]  - like seedrun.sh but in a private scratch worktree (parallel-safe):
# the change is applied to a worktree of /repo's HEAD and the check is pointed at it with JDV_REPO; /repo is not touched.
set -u
S=$(realpath $1); P=$2; T=${3:-quick}
W=$(mktemp -d /tmp/jdvwt-XXXXXX); rmdir $W
git -C /repo worktree add -q --detach $W HEAD || exit 2
if ! git -C $W apply $S/patch.diff; then echo "seed=$1 PATCH DOES NOT APPLY"; git -C /repo worktree remove --force $W; exit 2; fi
start=$(date +%s)
HERE=$(cd "$(dirname "$0")/.." && pwd)
out=$(cd $HERE && JDV_REPO=$W JDV_EVIDENCE_DIR=$W.ev ./check $P $T 2>&1); rc=$?
git -C /repo worktree remove --force $W; rm -rf $W.ev
nv=$(echo "$out" | grep -c '^VIOLATION')
echo "seed=$1 property=$P tier=$T exit=$rc violation_lines=$nv wall=$(( $(date +%s) - start ))s"
echo "$out" | grep '^VIOLATION' | awk '{print $4}' | sort | uniq -c | sort -rn | head -4
echo "$out" | grep -i 'INFRA' -A6 | head -10
