#!/usr/bin/env python3
"""Development aid: failing sessions of a kept jp/jpv scratch directory."""
import sys,json,collections,os
sys.path.insert(0,os.path.dirname(os.path.abspath(__file__)))
import jdvlib as L, analyze as A
D=sys.argv[1]; tag=sys.argv[2]; per=int(sys.argv[3]) if len(sys.argv)>3 else 3
out=open(os.path.join(D,'tlc-'+tag,'tlc.out')).read().splitlines()
v=L.parse_verdicts(out)
print(collections.Counter((p,cl.split(',')[0]) for s,p,cl in v['fail'])); print(collections.Counter((p,cl) for s,p,cl in v['note']))
seen=collections.Counter(); done=set()
def tok(t): return str(t['i']) if t['i']>=0 else ('-' if t['i']==-2 else t['s'])
def opstr(o): return '%s /%s %s'%(o['op'],'/'.join(tok(t) for t in o['path']), A.txt(o['value']) if o['value']['k']!='N' else '')
for s,p,cl in v['fail']:
    if s in done: continue
    done.add(s)
    recs=L.session_records(os.path.join(D,'trace-'+tag),s)
    key=cl.split(',')[0]
    seen[key]+=1
    if seen[key]<=per:
        print(key, cl, 'sess',s)
        for r in recs:
            if r['op']=='JpBegin': print('   a=%s b=%s'%(A.txt(r['a']),A.txt(r['b'])))
            if r['op']=='Diff': print('   d :', ' ; '.join(A.hunk(h) for h in r['diff']))
            if r['op']=='RenderPatch': print('   rp:', r['st'], r.get('msg'), r['raw'])
            if r['op']=='Native': print('   native t=%d c=%s -> %s'%(r['t'],A.txt(r['c']), r['res']['st']+' '+(A.txt(r['res']['doc']) if 'doc' in r['res'] else r['res'].get('msg',''))))
            if r['op']=='VBegin': print('   ops:', ' ; '.join(opstr(o) for o in r['ops']))
            if r['op'] in ('VRead','ReadOwn'): print('   read', r['st'], r.get('msg'), ' ; '.join(A.hunk(h) for h in r['diff']))
            if r['op']=='VApply': print('   apply c=%s -> %s'%(A.txt(r['c']), r['res']['st']+' '+(A.txt(r['res']['doc']) if 'doc' in r['res'] else r['res'].get('msg',''))))
            if r['op']=='ApplyOwn': print('   applyown', r['res']['st'], r['res'].get('msg'))
