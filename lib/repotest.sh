#!/bin/bash
# runs the repository's own suites (tag off); exit 0 only if every package except the WASM-only v2/web/ui passes
out=$( (cd /repo && go test -mod=mod -vet=off -count=1 ./... 2>&1; cd /repo/v2 && go test -mod=mod -vet=off -count=1 ./... 2>&1) )
echo "$out" | grep -E '^(ok|FAIL|---|panic)' | grep -v 'web/ui' | tail -15
if echo "$out" | grep -E '^(FAIL|--- FAIL|panic)' | grep -v 'web/ui' | grep -qv '^FAIL$'; then echo "REPO TESTS FAIL"; exit 1; fi
echo "REPO TESTS PASS"
