#!/bin/bash
# usage: alltiers.sh <tier> [seed] [props...]  - runs the checks one after another and prints one line per check
HERE=$(cd "$(dirname "$0")/.." && pwd); cd $HERE
T=${1:-quick}; S=${2:-1}; shift; shift
PROPS=${@:-C01 C02 C03 C04 C05 C06 C07 C08 C09 C10 C11 C12 C13 C14 C15 C16 C17 C18}
./check setup > /dev/null 2>&1
for p in $PROPS; do
  s=$(date +%s)
  VERIF_SEED=$S ./check $p $T > /tmp/alltiers.$$.out 2>&1; rc=$?
  echo "prop=$p tier=$T seed=$S exit=$rc wall=$(( $(date +%s) - s ))s $(grep -c '^VIOLATION' /tmp/alltiers.$$.out) violation-lines $(grep -c '^KNOWN-FINDING' /tmp/alltiers.$$.out) known; $(grep '^\[check\] C' /tmp/alltiers.$$.out | tail -1)"
  grep '^VIOLATION' /tmp/alltiers.$$.out | awk '{print $4}' | sort | uniq -c | sort -rn | head -5
  grep -i 'INFRASTRUCTURE' -A8 /tmp/alltiers.$$.out | head -12
done
rm -f /tmp/alltiers.$$.out
echo ALL-DONE
