#!/bin/bash
# usage: seedrun.sh <seeded/dir> <property> [tier]  - applies the seeded change to /repo, runs the check, undoes the change
set -u
S=$1; P=$2; T=${3:-quick}
cd /verif
git -C /repo diff --quiet || { echo "/repo is dirty"; exit 2; }
git -C /repo apply $(realpath $S)/patch.diff || { echo "PATCH DOES NOT APPLY"; exit 2; }
start=$(date +%s)
./check $P $T > /tmp/seedrun.$$.out 2>&1; rc=$?
git -C /repo checkout -- . 
nv=$(grep -c '^VIOLATION' /tmp/seedrun.$$.out)
echo "seed=$S property=$P tier=$T exit=$rc violation_lines=$nv wall=$(( $(date +%s) - start ))s"
grep '^VIOLATION' /tmp/seedrun.$$.out | awk '{print $4}' | sort | uniq -c | sort -rn | head -5
grep -i 'INFRA' -A5 /tmp/seedrun.$$.out | head -12
rm -f /tmp/seedrun.$$.out
