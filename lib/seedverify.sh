#!/bin/bash
# usage: seedverify.sh <seed dir> <scratch worktree>   - confirms a seeded change: applies to /repo HEAD,
# existing tests pass with it, the demonstration fails with it and passes without it.
set -u
S=$1; W=$2
git -C $W checkout -q -f --detach main && git -C $W clean -fdq
demo=$(ls $S/demo_test.go 2>/dev/null || ls $S/demo/main.go 2>/dev/null)
pkgdir=$W/v2
head -4 $demo | grep -q '/lib/' && pkgdir=$W/lib
place=$(head -3 $demo | grep -o 'place in [./a-z0-9]*' | head -1 | awk '{print $3}')
case "$place" in
  v2/|v2) pkgdir=$W/v2;; lib/|lib) pkgdir=$W/lib;; v2/jd/|v2/jd) pkgdir=$W/v2/jd;; ./|.) pkgdir=$W;;
esac
grep -q '^package main' $demo && pkgdir=$W
if grep -q 'v2/jd' $S/notes.md 2>/dev/null && grep -q '^package main' $demo; then pkgdir=$W/v2/jd; fi
run_demo() { cp $demo $pkgdir/zz_seed_demo_test.go; (cd $pkgdir && go test -mod=mod -vet=off -count=1 . 2>&1 | tail -3); rm -f $pkgdir/zz_seed_demo_test.go; }
echo "== demo on unchanged tree (must pass)"; run_demo
git -C $W apply $S/patch.diff || { echo "PATCH DOES NOT APPLY"; exit 1; }
echo "== existing tests with the change (must pass)"
(cd $W && go test -mod=mod -vet=off -count=1 ./... 2>&1 | tail -3); (cd $W/v2 && go test -mod=mod -vet=off -count=1 . ./jd 2>&1 | tail -3)
echo "== demo with the change (must fail)"; run_demo
git -C $W checkout -q -f . && git -C $W clean -fdq
