#!/bin/bash
# usage: seedverify.sh <seed dir> <scratch worktree> [base commit]  - confirms a seeded change: applies to the base
# (default: /repo HEAD), existing tests pass with it, the demonstration fails with it and passes without it.
# Prints one summary line: VERIFY <dir> base=<commit> applies=<0|1> demo_base_ok=<0|1> suites_ok=<n of 4> demo_fails_with_change=<0|1>
set -u
S=$(realpath $1); W=$2; BASE=${3:-$(git -C /repo rev-parse --short HEAD)}
git -C $W checkout -q -f --detach $BASE && git -C $W clean -fdq
demo=$(ls $S/demo_test.go 2>/dev/null || ls $S/demo/main.go 2>/dev/null)
pkgdir=$W/v2
head -4 $demo | grep -q '/lib/' && pkgdir=$W/lib
place=$(head -3 $demo | grep -o 'place in [./a-z0-9]*' | head -1 | awk '{print $3}')
case "$place" in
  v2/|v2) pkgdir=$W/v2;; lib/|lib) pkgdir=$W/lib;; v2/jd/|v2/jd) pkgdir=$W/v2/jd;; ./|.) pkgdir=$W;;
esac
if [ -z "$place" ]; then
  grep -q '^package main' $demo && pkgdir=$W
  if grep -q 'v2/jd' $S/notes.md 2>/dev/null && grep -q '^package main' $demo; then pkgdir=$W/v2/jd; fi
fi
run_demo() { cp $demo $pkgdir/zz_seed_demo_test.go; (cd $pkgdir && go test -mod=mod -vet=off -count=1 . 2>&1 | tail -3); rm -f $pkgdir/zz_seed_demo_test.go; }
echo "== demo on unchanged tree (must pass)"; o1=$(run_demo); echo "$o1"
db=0; echo "$o1" | grep -q '^ok' && db=1
if ! git -C $W apply $S/patch.diff 2>/dev/null; then
  echo "VERIFY $1 base=$BASE applies=0 demo_base_ok=$db suites_ok=0 demo_fails_with_change=0"; exit 1
fi
echo "== existing tests with the change (must pass)"
o2=$( (cd $W && go test -mod=mod -vet=off -count=1 ./... 2>&1 | tail -4); (cd $W/v2 && go test -mod=mod -vet=off -count=1 . ./jd 2>&1 | tail -3) ); echo "$o2"
so=$(echo "$o2" | grep -c '^ok'); sf=$(echo "$o2" | grep -c '^FAIL\|^--- FAIL\|^panic')
echo "== demo with the change (must fail)"; o3=$(run_demo); echo "$o3"
df=0; echo "$o3" | grep -q '^FAIL\|^--- FAIL\|^panic\|fatal error' && df=1
git -C $W checkout -q -f . && git -C $W clean -fdq
echo "VERIFY $1 base=$BASE applies=1 demo_base_ok=$db suites_ok=$so suites_failed=$sf demo_fails_with_change=$df"
