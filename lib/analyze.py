#!/usr/bin/env python3
"""Development aid: summarise the JDV-FAIL lines of a kept scratch directory by clause and option set."""
import sys, os, json, glob, collections, re
sys.path.insert(0, os.path.dirname(os.path.abspath(__file__)))
import jdvlib as L

def txt(n):
    k, v = n['k'], n['v']
    if k == 'n': return str(v / 8) if v % 8 else str(v // 8)
    if k == 's': return json.dumps(v)
    if k == 'x': return 'x' + str(v)
    if k == 'z': return 'null'
    if k == 'v': return '<void>'
    if k == 'b': return str(v).lower()
    if k == 'A': return '[' + ','.join(txt(x) for x in v) + ']'
    if k == 'O': return '{' + ','.join(json.dumps(kk) + ':' + txt(x) for kk, x in (sorted(v.items()) if isinstance(v, dict) else [])) + '}'
    return '?' + k

def otag(o):
    return '+'.join([k for k in ('set', 'mset', 'merge') if o[k]] + (['keys'] if o['keys'] else []) + (['eps%d' % o['eps']] if o['eps'] else [])) or 'none'

def pe(e):
    if e['k'] in ('key',): return json.dumps(e['v'])
    if e['k'] == 'idx': return str(e['v'])
    if e['k'] == 'set': return '{}'
    if e['k'] == 'mset': return '[]'
    return ('{%s}' if e['k']=='setkeys' else '[{%s}]') % ','.join('%s:%s' % (k, txt(v)) for k, v in e['v'].items()) if isinstance(e['v'], dict) else e['k']

def hunk(h):
    return ('^M ' if h['merge'] else '') + '@[' + ','.join(pe(e) for e in h['path']) + '] ' + \
        ' '.join(['<' + txt(x) for x in h['before']] + ['-' + txt(x) for x in h['remove']] + ['+' + txt(x) for x in h['add']] + ['>' + txt(x) for x in h['after']])

def main(scratch, tag, n=3, want=None):
    out = open(os.path.join(scratch, 'tlc-' + tag, 'tlc.out')).read().splitlines()
    v = L.parse_verdicts(out)
    tdir = os.path.join(scratch, 'trace-' + tag)
    groups = collections.defaultdict(list)
    for (sess, prop, clause) in v['fail'] + [(s, p, 'NOTE:' + c) for (s, p, c) in v['note']]:
        groups[(prop, clause)].append(sess)
    for (prop, clause), sl in sorted(groups.items()):
        if want and want not in prop + clause: continue
        byopt = collections.defaultdict(list)
        for s in sl[:400]:
            recs = L.session_records(tdir, s)
            if not recs: continue
            b = recs[0]
            byopt[otag(b.get('opts', {'set':0,'mset':0,'merge':0,'keys':[],'eps':0}))].append(recs)
        print('==', prop, clause, len(sl))
        for ot, rl in byopt.items():
            print('  --', ot, len(rl))
            for recs in rl[:n]:
                b = recs[0]
                if 'a' in b: print('     a=%s b=%s' % (txt(b['a']), txt(b['b'])))
                for r in recs[1:]:
                    if r['op'] == 'Diff': print('        diff:', ' ; '.join(hunk(h) for h in r['diff']))
                    elif r['op'] == 'Target': print('        target t=%s sub=%s c=%s' % (r.get('t'), r['sub'], txt(r['c'])))
                    elif r['op'] == 'PatchStep':
                        rs = r['res']; print('        step %d: %s %s' % (r['k'], rs['st'], txt(rs['doc']) if 'doc' in rs else rs.get('msg', '')))
                    elif r['op'] in ('Equals', 'EqualsAB'): print('        %s: %s' % (r['op'], r['res'].get('bool')))
                    elif r['op'] not in ('End',): print('        ', json.dumps(r)[:300])

if __name__ == '__main__':
    main(sys.argv[1], sys.argv[2], int(sys.argv[3]) if len(sys.argv) > 3 else 3, sys.argv[4] if len(sys.argv) > 4 else None)
