#!/usr/bin/env python3
"""Regenerates /verif/MANIFEST.json from the table below (kept next to the checks so they stay in step)."""
import json, os
VERIF = os.path.dirname(os.path.dirname(os.path.abspath(__file__)))

TB = ("Trusted base: TLC 1.8.0 with the CommunityModules Json/IOUtils overrides; the harness codec (documents injected as JSON "
      "text, projected from Json(); diffs through the public DiffElement/Path fields); bounded universes of spec/Universe.tla "
      "(exhaustive families, hash-sampled by VERIF_SEED where the cross product is too large). Verdicts are taken from the real "
      "library's results only; a model-only counterexample or a tool failure is exit 2.")

C = {}
def add(pid, text, technique, ref, note=TB, category="model_checking"):
    C[pid] = dict(property_id=pid, quick_cmd="./check %s quick" % pid, thorough_cmd="./check %s thorough" % pid,
                  evidence_file="evidence/%s.json" % pid, replay_cmd_template="./check %s --replay {path}" % pid,
                  engine="tlc-trace-validation",
                  level_claimed=dict(category=category, text=text, design_ref=ref), level_note=note, technique=technique)

add("C01", "Bounded-exhaustive / sampled (a,b,options) sessions generated from the TLA+ universe; the real Diff value is applied "
    "prefix by prefix by the real Patch and every step is validated by TLC as a transition of the hunk-application machine "
    "(Patch.tla); the verdict is the literal statement (Patch succeeded, Equals true).",
    "TLA+ hunk-application machine + TLC trace validation of real Diff/Patch/Equals sessions", "5 C01")
add("C03", "For real list-mode diffs and their hunk sub-sequences, every (target, step) result of the real Patch is validated by TLC "
    "against the reference interpreter ApplyHunk of Patch.tla: same ok/error verdict and the same document.",
    "TLA+ reference interpreter (Patch.tla) as oracle, TLC trace validation over perturbed targets", "5 C03")
add("C04", "Every recorded Equals(a,b), Equals(b,a), Equals(a,a) is compared by TLC with the canonical-form oracle Eq of JsonValue.tla "
    "over exhaustive small families plus a type-confusion family.", "TLA+ canonical-form equality oracle, TLC trace validation", "5 C04")
add("C05", "len(Diff)=0 iff Equals on the real results for every session; the oracle Eq is evaluated beside it for attribution.",
    "TLC trace validation of Diff/Equals sessions", "5 C05")
add("C06", "The real list-mode hunks are judged by TLC against an LCS length computed by the specification's own DP, the context rule "
    "(via the Patch machine's Splice guard) and the recurse-don't-replace rule.", "TLA+ DiffRel relations (LCS DP, context, recursion) on real diffs", "5 C06")
add("C07", "Per-hunk and leave-one-out relations of DiffRel.tla evaluated by TLC on the real diffs with the spec interpreter.",
    "TLA+ DiffRel relations + spec interpreter for leave-one-out", "5 C07")
add("C08", "Real SET/MULTISET/SetKeys diffs applied by the real Patch to permuted and perturbed targets; each step validated against "
    "SetHunk/BagHunk/keyed-member semantics of Patch.tla under the hunk's reading.", "TLA+ set/bag hunk semantics, TLC trace validation", "5 C08")

ALL = ["C%02d" % i for i in range(1, 19)]
NA_REASON = "check not built yet in this revision (planned, see DESIGN.md section 5)"

def main():
    m = dict(version=1, setup_cmd="./check setup",
             hooks=dict(guard="verif", enable="go build -tags verif (no hook exists: every observation is made through the public API and the binaries)",
                        baseline_off_cmd="cd /repo && go test -mod=mod -vet=off -count=1 ./... ; cd /repo/v2 && go test -mod=mod -vet=off -count=1 ./...",
                        source_commits=[], add_only=True),
             engines=[dict(name="tlc-trace-validation", path="check", serves_properties=sorted(C),
                           kind_free_text="TLA+ specification (spec/*.tla) checked by TLC; scenarios exported by TLC, executed by the Go harness "
                                          "against /repo's working tree, traces validated by TLC against the specification's actions")],
             checks=[C[k] for k in sorted(C)],
             not_applicable=[dict(property_id=p, reason=NA_REASON) for p in ALL if p not in C],
             notes="See DESIGN.md. Known findings: known_findings.json. Seeded changes: seeded/.")
    with open(os.path.join(VERIF, "MANIFEST.json"), "w") as f:
        json.dump(m, f, indent=1)

if __name__ == "__main__":
    main()
